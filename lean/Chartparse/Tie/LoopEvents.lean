import Chartparse.Gen.Imp
import Chartparse.Proofs.ImpRules
/-! `track.build_events_from_data.data_to_events`, `data_to_bpm_events`, `data_to_anchor_events` as written in /repo today:
    each is the fold that hands every datum, together with the event built just before it (`None` for the first), to the
    event type's `from_parsed_data`, and collects the results in order; the first failure ends the call. -/
namespace Chartparse.Tie
open Chartparse Chartparse.PyImp

/-- the event built last (`events[-1] if events else None`) -/
def lastOr (acc : List Val) : Val := acc.getLast?.getD .none

/-- the fold: `step d prev` builds the event of datum `d` after event `prev` -/
def foldPrev (step : Val → Val → M Val) : List Val → List Val → M (List Val)
  | [], acc => .ok acc
  | d :: ds, acc => step d (lastOr acc) >>= fun e => foldPrev step ds (acc ++ [e])

theorem lastOr_append (acc : List Val) (e : Val) : lastOr (acc ++ [e]) = e := by simp [lastOr]

/-- `events[-1] if events else None` -/
theorem prev_expr (ext : Ext) (env : Env) (acc : List Val) (h : lookup env "events" = .ok (.list (Val.ofList acc))) :
    evalExpr ext env (.ifExp (.var "events") (.index (.var "events") (.lit (.int (-1)))) (.lit .none)) = .ok (lastOr acc) := by
  cases acc with
  | nil => simp [evalExpr, h, bind, Except.bind, lastOr]
  | cons a as =>
    have := indexVal_last (a :: as) (by simp)
    simp [evalExpr, h, bind, Except.bind, this, lastOr, List.getLast?_eq_some_getLast]

/-! ### `data_to_events` -/

def evEnv (ty D bpm : Val) (d : Option Val) (acc : List Val) (prev : Option Val) : Env :=
  [("event_type", some ty), ("datas", some D), ("bpm_events", some bpm), ("data", d), ("events", some (.list (Val.ofList acc))),
   ("prev_event", prev)]

def evBody : Stmt :=
  (.seq (.assign "prev_event" (.ifExp (.var "events") (.index (.var "events") (.lit (.int (-1)))) (.lit .none)))
   (.append "events" (.call ".from_parsed_data" (.econs (.var "event_type") (.econs (.var "data") (.econs (.var "prev_event") (.econs (.var "bpm_events") .enil)))))))

theorem evBody_run (ext : Ext) (ty D bpm d : Val) (pv : Option Val) (acc : List Val) :
    Runs ext evBody (evEnv ty D bpm (some d) acc pv)
      (match ext ".from_parsed_data" [ty, d, lastOr acc, bpm] with
       | .ok e => .norm (evEnv ty D bpm (some d) (acc ++ [e]) (some (lastOr acc)))
       | .error err => .exc err (evEnv ty D bpm (some d) acc (some (lastOr acc)))) := by
  apply runs_of_exec 5
  intro k
  have hp := prev_expr ext (evEnv ty D bpm (some d) acc pv) acc (by simp [evEnv, lookup])
  generalize hE : ext ".from_parsed_data" [ty, d, lastOr acc, bpm] = R
  unfold evBody
  simp only [exec, hp]
  cases R <;>
    simp [evEnv, setVar, lookup, evalExpr, bind, Except.bind, Val.toList?, appendVal, hE]

/-- the loop: every remaining datum in turn -/
theorem evLoop (ext : Ext) (ty D bpm : Val) (ds : List Val) :
    ∀ (acc : List Val) (d : Option Val) (pv : Option Val),
      match foldPrev (fun d p => ext ".from_parsed_data" [ty, d, p, bpm]) ds acc with
      | .ok out => ∃ d' pv', Runs ext (.forVals "data" (Val.ofList ds) evBody .skip) (evEnv ty D bpm d acc pv)
                    (.norm (evEnv ty D bpm d' out pv'))
      | .error err => ∃ env', Runs ext (.forVals "data" (Val.ofList ds) evBody .skip) (evEnv ty D bpm d acc pv) (.exc err env') := by
  induction ds with
  | nil =>
    intro acc d pv
    simp only [foldPrev, Val.ofList]
    exact ⟨d, pv, Runs.forVals_nil (Runs.skip _ _)⟩
  | cons x xs ih =>
    intro acc d pv
    have hb := evBody_run ext ty D bpm x pv acc
    have hset : setVar (evEnv ty D bpm d acc pv) "data" x = evEnv ty D bpm (some x) acc pv := by simp [evEnv, setVar]
    simp only [foldPrev, Val.ofList, bind, Except.bind]
    cases hE : ext ".from_parsed_data" [ty, x, lastOr acc, bpm] with
    | error err =>
      rw [hE] at hb
      exact ⟨_, Runs.forVals_exit (by rw [hset]; exact hb) (Or.inr ⟨_, _, rfl⟩)⟩
    | ok e =>
      rw [hE] at hb
      have h2 := ih (acc ++ [e]) (some x) (some (lastOr acc))
      simp only []
      cases hF : foldPrev (fun d p => ext ".from_parsed_data" [ty, d, p, bpm]) xs (acc ++ [e]) with
      | error err =>
        rw [hF] at h2
        obtain ⟨env', h2⟩ := h2
        exact ⟨env', Runs.forVals_step (Or.inl (by rw [hset]; exact hb)) h2⟩
      | ok out =>
        rw [hF] at h2
        obtain ⟨d', pv', h2⟩ := h2
        exact ⟨d', pv', Runs.forVals_step (Or.inl (by rw [hset]; exact hb)) h2⟩

/-- **`data_to_events` is the fold** — for every event type, every list of data, every tempo map object and whatever
    `event_type.from_parsed_data` does -/
theorem dataToEvents_tie (ext : Ext) (ty bpm : Val) (ds : List Val) :
    Returns ext Gen.Imp.dataToEvents
      (initEnv [("event_type", ty), ("datas", .list (Val.ofList ds)), ("bpm_events", bpm)] Gen.Imp.dataToEventsLocals)
      ((foldPrev (fun d p => ext ".from_parsed_data" [ty, d, p, bpm]) ds []).map fun out => .list (Val.ofList out)) := by
  have h0 : initEnv [("event_type", ty), ("datas", .list (Val.ofList ds)), ("bpm_events", bpm)] Gen.Imp.dataToEventsLocals
      = [("event_type", some ty), ("datas", some (.list (Val.ofList ds))), ("bpm_events", some bpm), ("data", none),
         ("events", none), ("prev_event", none)] := by
    simp [initEnv, Gen.Imp.dataToEventsLocals]
  rw [h0]
  have hl := evLoop ext ty (.list (Val.ofList ds)) bpm ds [] none none
  have hinit : Runs ext (.assign "events" (.mkList .enil))
      [("event_type", some ty), ("datas", some (.list (Val.ofList ds))), ("bpm_events", some bpm), ("data", none),
         ("events", none), ("prev_event", none)] (.norm (evEnv ty (.list (Val.ofList ds)) bpm none [] none)) := by
    have := Runs.assign (ext := ext) (x := "events") (e := .mkList .enil) (v := .list .nil)
      (env := [("event_type", some ty), ("datas", some (.list (Val.ofList ds))), ("bpm_events", some bpm), ("data", none),
         ("events", none), ("prev_event", none)]) (by simp [evalExpr, bind, Except.bind])
    simpa [setVar, evEnv, Val.ofList] using this
  have hfor : ∀ r, Runs ext (.forVals "data" (Val.ofList ds) evBody .skip) (evEnv ty (.list (Val.ofList ds)) bpm none [] none) r →
      Runs ext (.forIn "data" (.var "datas") evBody .skip) (evEnv ty (.list (Val.ofList ds)) bpm none [] none) r :=
    fun r h => Runs.forIn_list (by simp [evalExpr, evEnv, lookup]) h
  unfold Gen.Imp.dataToEvents
  cases hF : foldPrev (fun d p => ext ".from_parsed_data" [ty, d, p, bpm]) ds [] with
  | error err =>
    rw [hF] at hl
    obtain ⟨env', hl⟩ := hl
    exact ⟨env', Runs.seq hinit (Runs.seq_stop (hfor _ hl) (by intro e; simp))⟩
  | ok out =>
    rw [hF] at hl
    obtain ⟨d', pv', hl⟩ := hl
    exact Or.inl (Runs.seq hinit (Runs.seq (hfor _ hl) (Runs.ret (by simp [evalExpr, evEnv, lookup]))))

/-! ### the same loop shape, generically: `for data in datas: <body that appends step(data, last event)>` -/

/-- any loop whose body, started with the datum in its slot, appends `step datum (last event)` to the accumulator (or raises what
    `step` raises) is `foldPrev step` -/
theorem accLoop (ext : Ext) (v : String) (body : Stmt) (step : Val → Val → M Val)
    (E : Option Val → List Val → Option Val → Env)
    (hset : ∀ d acc pv x, setVar (E d acc pv) v x = E (some x) acc pv)
    (hbody : ∀ x acc pv, ∃ env', Runs ext body (E (some x) acc pv)
      (match step x (lastOr acc) with
       | .ok e => .norm (E (some x) (acc ++ [e]) (some (lastOr acc)))
       | .error err => .exc err env'))
    (ds : List Val) :
    ∀ (acc : List Val) (d : Option Val) (pv : Option Val),
      match foldPrev step ds acc with
      | .ok out => ∃ d' pv', Runs ext (.forVals v (Val.ofList ds) body .skip) (E d acc pv) (.norm (E d' out pv'))
      | .error err => ∃ env', Runs ext (.forVals v (Val.ofList ds) body .skip) (E d acc pv) (.exc err env') := by
  induction ds with
  | nil =>
    intro acc d pv
    simp only [foldPrev, Val.ofList]
    exact ⟨d, pv, Runs.forVals_nil (Runs.skip _ _)⟩
  | cons x xs ih =>
    intro acc d pv
    obtain ⟨env', hb⟩ := hbody x acc pv
    simp only [foldPrev, Val.ofList, bind, Except.bind]
    cases hE : step x (lastOr acc) with
    | error err =>
      rw [hE] at hb
      exact ⟨_, Runs.forVals_exit (by rw [hset]; exact hb) (Or.inr ⟨_, _, rfl⟩)⟩
    | ok e =>
      rw [hE] at hb
      have h2 := ih (acc ++ [e]) (some x) (some (lastOr acc))
      simp only []
      cases hF : foldPrev step xs (acc ++ [e]) with
      | error err =>
        rw [hF] at h2
        obtain ⟨env'', h2⟩ := h2
        exact ⟨env'', Runs.forVals_step (Or.inl (by rw [hset]; exact hb)) h2⟩
      | ok out =>
        rw [hF] at h2
        obtain ⟨d', pv', h2⟩ := h2
        exact ⟨d', pv', Runs.forVals_step (Or.inl (by rw [hset]; exact hb)) h2⟩

/-! ### `data_to_bpm_events` -/

def bpmEnv (D R CS C : Val) (d : Option Val) (acc : List Val) (prev : Option Val) : Env :=
  [("datas", some D), ("resolution", some R), ("BPMEvents", some CS), ("BPMEvent", some C), ("data", d), ("events", some (.list (Val.ofList acc))),
   ("prev_event", prev)]

def bpmBody : Stmt :=
  (.seq (.assign "prev_event" (.ifExp (.var "events") (.index (.var "events") (.lit (.int (-1)))) (.lit .none)))
   (.append "events" (.call ".from_parsed_data" (.econs (.var "BPMEvent") (.econs (.var "data") (.econs (.var "prev_event") (.econs (.var "resolution") .enil)))))))

theorem bpmBody_run (ext : Ext) (D R CS C x : Val) (pv : Option Val) (acc : List Val) :
    ∃ env', Runs ext bpmBody (bpmEnv D R CS C (some x) acc pv)
      (match ext ".from_parsed_data" [C, x, lastOr acc, R] with
       | .ok e => .norm (bpmEnv D R CS C (some x) (acc ++ [e]) (some (lastOr acc)))
       | .error err => .exc err env') := by
  refine ⟨bpmEnv D R CS C (some x) acc (some (lastOr acc)), ?_⟩
  apply runs_of_exec 5
  intro k
  have hp := prev_expr ext (bpmEnv D R CS C (some x) acc pv) acc (by simp [bpmEnv, lookup])
  generalize hE : ext ".from_parsed_data" [C, x, lastOr acc, R] = r
  unfold bpmBody
  simp only [exec, hp]
  cases r <;>
    simp [bpmEnv, setVar, lookup, evalExpr, bind, Except.bind, Val.toList?, appendVal, hE]

/-- **`data_to_bpm_events`**: the fold of `BPMEvent.from_parsed_data` over the tempo data, each with the event built before it, then
    the `BPMEvents` constructor on the collected list (`BPMEvent` / `BPMEvents` are the classes the enclosing function bound) -/
theorem dataToBpmEvents_tie (ext : Ext) (R CS C : Val) (ds : List Val) :
    Returns ext Gen.Imp.dataToBpmEvents
      (initEnv [("datas", .list (Val.ofList ds)), ("resolution", R), ("BPMEvents", CS), ("BPMEvent", C)] Gen.Imp.dataToBpmEventsLocals)
      (foldPrev (fun d p => ext ".from_parsed_data" [C, d, p, R]) ds [] >>= fun out =>
        ext "()(events=,resolution=)" [CS, .list (Val.ofList out), R]) := by
  have h0 : initEnv [("datas", .list (Val.ofList ds)), ("resolution", R), ("BPMEvents", CS), ("BPMEvent", C)] Gen.Imp.dataToBpmEventsLocals
      = [("datas", some (.list (Val.ofList ds))), ("resolution", some R), ("BPMEvents", some CS), ("BPMEvent", some C), ("data", none), ("events", none),
         ("prev_event", none)] := by
    simp [initEnv, Gen.Imp.dataToBpmEventsLocals]
  rw [h0]
  have hl := accLoop ext "data" bpmBody (fun d p => ext ".from_parsed_data" [C, d, p, R]) (bpmEnv (.list (Val.ofList ds)) R CS C)
    (by intro d acc pv x; simp [bpmEnv, setVar]) (fun x acc pv => bpmBody_run ext _ R CS C x pv acc) ds [] none none
  have hinit : Runs ext (.assign "events" (.mkList .enil))
      [("datas", some (.list (Val.ofList ds))), ("resolution", some R), ("BPMEvents", some CS), ("BPMEvent", some C), ("data", none), ("events", none),
       ("prev_event", none)]
      (.norm (bpmEnv (.list (Val.ofList ds)) R CS C none [] none)) := by
    have := Runs.assign (ext := ext) (x := "events") (e := .mkList .enil) (v := .list .nil)
      (env := [("datas", some (.list (Val.ofList ds))), ("resolution", some R), ("BPMEvents", some CS), ("BPMEvent", some C), ("data", none), ("events", none),
       ("prev_event", none)])
      (by simp [evalExpr, bind, Except.bind])
    simpa [setVar, bpmEnv, Val.ofList] using this
  have hfor : ∀ r, Runs ext (.forVals "data" (Val.ofList ds) bpmBody .skip) (bpmEnv (.list (Val.ofList ds)) R CS C none [] none) r →
      Runs ext (.forIn "data" (.var "datas") bpmBody .skip) (bpmEnv (.list (Val.ofList ds)) R CS C none [] none) r :=
    fun r h => Runs.forIn_list (by simp [evalExpr, bpmEnv, lookup]) h
  unfold Gen.Imp.dataToBpmEvents
  cases hF : foldPrev (fun d p => ext ".from_parsed_data" [C, d, p, R]) ds [] with
  | error err =>
    rw [hF] at hl
    obtain ⟨env', hl⟩ := hl
    exact ⟨env', Runs.seq hinit (Runs.seq_stop (hfor _ hl) (by intro e; simp))⟩
  | ok out =>
    rw [hF] at hl
    obtain ⟨d', pv', hl⟩ := hl
    have hcall : evalExpr ext (bpmEnv (.list (Val.ofList ds)) R CS C d' out pv')
        (.call "()(events=,resolution=)" (.econs (.var "BPMEvents") (.econs (.var "events") (.econs (.var "resolution") .enil))))
        = ext "()(events=,resolution=)" [CS, .list (Val.ofList out), R] := by
      simp [evalExpr, bpmEnv, lookup, bind, Except.bind, Val.toList?]
    simp only [bind, Except.bind]
    cases hc : ext "()(events=,resolution=)" [CS, .list (Val.ofList out), R] with
    | error err =>
      rw [hc] at hcall
      exact ⟨_, Runs.seq hinit (Runs.seq (hfor _ hl) (Runs.ret_err hcall))⟩
    | ok v =>
      rw [hc] at hcall
      exact Or.inl (Runs.seq hinit (Runs.seq (hfor _ hl) (Runs.ret hcall)))

/-! ### `data_to_anchor_events` -/

def anEnv (D C : Val) (d ev : Option Val) (acc : List Val) : Env :=
  [("datas", some D), ("AnchorEvent", some C), ("data", d), ("event", ev), ("events", some (.list (Val.ofList acc)))]

def anBody : Stmt :=
  (.seq (.assign "event" (.call ".from_parsed_data" (.econs (.var "AnchorEvent") (.econs (.var "data") .enil))))
   (.append "events" (.var "event")))

/-- the map: no previous event is involved -/
def mapM' (f : Val → M Val) : List Val → List Val → M (List Val)
  | [], acc => .ok acc
  | d :: ds, acc => f d >>= fun e => mapM' f ds (acc ++ [e])

theorem anLoop (ext : Ext) (D C : Val) (ds : List Val) :
    ∀ (acc : List Val) (d ev : Option Val),
      match mapM' (fun d => ext ".from_parsed_data" [C, d]) ds acc with
      | .ok out => ∃ d' ev', Runs ext (.forVals "data" (Val.ofList ds) anBody .skip) (anEnv D C d ev acc) (.norm (anEnv D C d' ev' out))
      | .error err => ∃ env', Runs ext (.forVals "data" (Val.ofList ds) anBody .skip) (anEnv D C d ev acc) (.exc err env') := by
  induction ds with
  | nil =>
    intro acc d ev
    simp only [mapM', Val.ofList]
    exact ⟨d, ev, Runs.forVals_nil (Runs.skip _ _)⟩
  | cons x xs ih =>
    intro acc d ev
    have hset : setVar (anEnv D C d ev acc) "data" x = anEnv D C (some x) ev acc := by simp [anEnv, setVar]
    simp only [mapM', Val.ofList, bind, Except.bind]
    cases hE : ext ".from_parsed_data" [C, x] with
    | error err =>
      refine ⟨anEnv D C (some x) ev acc, Runs.forVals_exit (by
        rw [hset]
        exact Runs.seq_stop (Runs.assign_err (by simp [evalExpr, anEnv, lookup, bind, Except.bind, Val.toList?, hE])) (by intro e; simp)) (Or.inr ⟨_, _, rfl⟩)⟩
    | ok e =>
      have hb : Runs ext anBody (anEnv D C (some x) ev acc) (.norm (anEnv D C (some x) (some e) (acc ++ [e]))) := by
        apply runs_of_exec 5
        intro k
        simp [anBody, exec, evalExpr, anEnv, lookup, setVar, bind, Except.bind, Val.toList?, hE, appendVal]
      have h2 := ih (acc ++ [e]) (some x) (some e)
      simp only []
      cases hF : mapM' (fun d => ext ".from_parsed_data" [C, d]) xs (acc ++ [e]) with
      | error err =>
        rw [hF] at h2
        obtain ⟨env'', h2⟩ := h2
        exact ⟨env'', Runs.forVals_step (Or.inl (by rw [hset]; exact hb)) h2⟩
      | ok out =>
        rw [hF] at h2
        obtain ⟨d', ev', h2⟩ := h2
        exact ⟨d', ev', Runs.forVals_step (Or.inl (by rw [hset]; exact hb)) h2⟩

/-- **`data_to_anchor_events`** is the map of `AnchorEvent.from_parsed_data` over the data, in order -/
theorem dataToAnchorEvents_tie (ext : Ext) (C : Val) (ds : List Val) :
    Returns ext Gen.Imp.dataToAnchorEvents (initEnv [("datas", .list (Val.ofList ds)), ("AnchorEvent", C)] Gen.Imp.dataToAnchorEventsLocals)
      ((mapM' (fun d => ext ".from_parsed_data" [C, d]) ds []).map fun out => .list (Val.ofList out)) := by
  have h0 : initEnv [("datas", .list (Val.ofList ds)), ("AnchorEvent", C)] Gen.Imp.dataToAnchorEventsLocals
      = [("datas", some (.list (Val.ofList ds))), ("AnchorEvent", some C), ("data", none), ("event", none), ("events", none)] := by
    simp [initEnv, Gen.Imp.dataToAnchorEventsLocals]
  rw [h0]
  have hl := anLoop ext (.list (Val.ofList ds)) C ds [] none none
  have hinit : Runs ext (.assign "events" (.mkList .enil))
      [("datas", some (.list (Val.ofList ds))), ("AnchorEvent", some C), ("data", none), ("event", none), ("events", none)]
      (.norm (anEnv (.list (Val.ofList ds)) C none none [])) := by
    have := Runs.assign (ext := ext) (x := "events") (e := .mkList .enil) (v := .list .nil)
      (env := [("datas", some (.list (Val.ofList ds))), ("AnchorEvent", some C), ("data", none), ("event", none), ("events", none)])
      (by simp [evalExpr, bind, Except.bind])
    simpa [setVar, anEnv, Val.ofList] using this
  have hfor : ∀ r, Runs ext (.forVals "data" (Val.ofList ds) anBody .skip) (anEnv (.list (Val.ofList ds)) C none none []) r →
      Runs ext (.forIn "data" (.var "datas") anBody .skip) (anEnv (.list (Val.ofList ds)) C none none []) r :=
    fun r h => Runs.forIn_list (by simp [evalExpr, anEnv, lookup]) h
  unfold Gen.Imp.dataToAnchorEvents
  cases hF : mapM' (fun d => ext ".from_parsed_data" [C, d]) ds [] with
  | error err =>
    rw [hF] at hl
    obtain ⟨env', hl⟩ := hl
    exact ⟨env', Runs.seq hinit (Runs.seq_stop (hfor _ hl) (by intro e; simp))⟩
  | ok out =>
    rw [hF] at hl
    obtain ⟨d', ev', hl⟩ := hl
    exact Or.inl (Runs.seq hinit (Runs.seq (hfor _ hl) (Runs.ret (by simp [evalExpr, anEnv, lookup]))))

end Chartparse.Tie
