import Chartparse.Tie.Common
import Chartparse.Model.Instrument
/-! `NoteEvent._compute_hopo_state`, as written in /repo today, *is* the hand model's `hopoState`: same guard, same order of
    the tap / first-note cases, same three-way conjunction, same comparison with the forced flag. The triplet boundary, the
    note objects' equality and `is_chord()` enter as inputs (they are tied elsewhere: `noteDur_tie`, the generated `Note` table). -/
namespace Chartparse.Tie
open Chartparse Chartparse.Py Chartparse.Inst

def hopoName : Hopo → String
  | .strum => "HOPOState.STRUM" | .hopo => "HOPOState.HOPO" | .tap => "HOPOState.TAP"

def hopoEnv (thr : Int) (tick : Nat) (lanes : List Bool) (tap forced : Bool) (prev : Option (Nat × List Bool)) : Env :=
  [("tick", .int tick), ("is_tap", .bool tap), ("is_forced", .bool forced), ("note", .obj lanes),
   ("note.is_chord()", .bool (isChord lanes)),
   ("chartparse.tick.note_duration_to_ticks(resolution, NoteDuration.EIGHTH_TRIPLET)", .int thr)] ++
  (match prev with
   | none => [("previous", .none)]
   | some (pt, pl) => [("previous", .obj []), ("previous.tick", .int pt), ("previous.note", .obj pl)])

theorem hopo_tie (thr : Int) (tick : Nat) (lanes : List Bool) (tap forced : Bool) (prev : Option (Nat × List Bool)) :
    evalBody (hopoEnv thr tick lanes tap forced prev) Gen.Leaf.computeHopoState =
      (hopoState thr tick lanes tap forced prev).map (fun h => Val.enum (hopoName h)) := by
  cases prev with
  | none =>
    cases tap <;> cases forced <;>
      simp [Gen.Leaf.computeHopoState, hopoEnv, hopoState, evalBody, evalExpr, Py.lookup, bind, Except.bind, Except.map, hopoName]
  | some p =>
    obtain ⟨pt, pl⟩ := p
    have hobj : (Val.obj [] == Val.none) = false := by decide
    by_cases hw : (tick : Int) - (pt : Int) ≤ thr
    · have hw2 : (tick : Rat) ≤ (thr : Rat) + (pt : Rat) := by
        have : (tick : Int) ≤ thr + (pt : Int) := by omega
        exact_mod_cast this
      cases hl : (lanes == pl) <;> cases hc : isChord lanes <;> cases tap <;> cases forced <;>
        simp [Gen.Leaf.computeHopoState, hopoEnv, hopoState, evalBody, evalExpr, Py.lookup, evalBin, evalCmp, evalEq, sameKind, numVal,
          bind, Except.bind, Except.map, hopoName, hw, hw2, hl, hc, hobj, bne]
    · have hw2 : ¬ (tick : Rat) ≤ (thr : Rat) + (pt : Rat) := by
        have : ¬ (tick : Int) ≤ thr + (pt : Int) := by omega
        exact_mod_cast this
      cases hl : (lanes == pl) <;> cases hc : isChord lanes <;> cases tap <;> cases forced <;>
        simp [Gen.Leaf.computeHopoState, hopoEnv, hopoState, evalBody, evalExpr, Py.lookup, evalBin, evalCmp, evalEq, sameKind, numVal,
          bind, Except.bind, Except.map, hopoName, hw, hw2, hl, hc, hobj, bne]

end Chartparse.Tie
