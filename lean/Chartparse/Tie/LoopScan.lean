import Chartparse.Gen.Imp
import Chartparse.Proofs.ImpRules
/-! `Chart._partition_lines_by_data_section` as written in /repo today — the loop over `enumerate(lines)` with its three registers, the
    header recogniser outside a section, `"{"` setting the first body index, `"}"` storing `islice(lines, first, i)` under the tag (an
    existing key keeps its position) and resetting the registers — proved, for every list of lines and whatever the header recogniser
    answers, to be the index-based scanner `scanV`. `ComposeLoopScan.lean` proves `scanV` equal to the hand model's accumulator scanner. -/
namespace Chartparse.Tie
open Chartparse Chartparse.PyImp

def openB : Val := .str [123]
def closeB : Val := .str [125]
def matchObj (g : Val) : Val := .obj "Match" (.field "g1" g .fnil)
def encFirst : Option Nat → Val
  | none => .none
  | some k => .int k

/-- the scanner on indices: `i` is the index of the next line, `first` the register set by the last `"{"` -/
def scanV (hdr : Val → Option Val) (lines : List Val) : Nat → List Val → Option Val → Option Nat → List (Val × Val) → M (List (Val × Val))
  | _, [], _, _, d => .ok d
  | i, l :: rest, none, first, d =>
    match hdr l with
    | none => .error .regexNotMatch
    | some g => scanV hdr lines (i + 1) rest (some g) first d
  | i, l :: rest, some t, first, d =>
    if l == openB then scanV hdr lines (i + 1) rest (some t) (some (i + 1)) d
    else if l == closeB then
      scanV hdr lines (i + 1) rest none none (dictSet d t (.list (Val.ofList ((lines.take i).drop (first.getD 0)))))
    else scanV hdr lines (i + 1) rest (some t) first d

def pEnv (c L : Val) (first : Val) (tag : Val) (last : Val) (d : List (Val × Val)) (i line m it : Option Val) : Env :=
  [("cls", some c), ("lines", some L), ("curr_first_line_index", some first), ("curr_header_tag", some tag),
   ("curr_last_line_index", some last), ("d", some (.dict (encEntries d))), ("i", i), ("line", line), ("m", m), ("$it", it)]

def scanBody : Stmt :=
 (.seq (.unpack ["i", "line"] (.var "$it"))
 (.ite (.isNone (.var "curr_header_tag"))
 (.seq (.assign "m" (.call "Chart._header_tag_regex_prog.match" (.econs (.var "line") .enil)))
 (.seq (.ite (.not (.var "m"))
 (.raise .regexNotMatch)
 .skip)
 (.assign "curr_header_tag" (.call ".group" (.econs (.var "m") (.econs (.lit (.int 1)) .enil))))))
 (.ite (.cmp .eq (.var "line") (.lit (.str [123])))
 (.assign "curr_first_line_index" (.bin .add (.var "i") (.lit (.int 1))))
 (.ite (.cmp .eq (.var "line") (.lit (.str [125])))
 (.seq (.assign "curr_last_line_index" (.bin .sub (.var "i") (.lit (.int 1))))
 (.seq (.setIdx "d" (.var "curr_header_tag") (.call "itertools.islice" (.econs (.var "lines") (.econs (.var "curr_first_line_index") (.econs (.bin .add (.var "curr_last_line_index") (.lit (.int 1))) .enil)))))
 (.seq (.assign "curr_header_tag" (.lit .none))
 (.seq (.assign "curr_first_line_index" (.lit .none))
 (.assign "curr_last_line_index" (.lit .none))))))
 .skip))))

theorem dictEntries_enc (d : List (Val × Val)) : dictEntries (encEntries d) = some d := by
  unfold dictEntries encEntries
  simp only [Val.toList?_ofList]
  induction d with
  | nil => rfl
  | cons kv rest ih =>
    simp only [List.map_cons, List.mapM_cons, ih]
    rfl

/-- what the external calls are assumed to answer -/
structure ScanExt (ext : Ext) (hdr : Val → Option Val) (lines : List Val) : Prop where
  hmatch : ∀ l, ext "Chart._header_tag_regex_prog.match" [l] = .ok (match hdr l with | some g => matchObj g | none => .none)
  hgroup : ∀ g, ext ".group" [matchObj g, .int 1] = .ok g
  hslice : ∀ (f : Option Nat) (b : Nat), ext "itertools.islice" [.list (Val.ofList lines), encFirst f, .int b] =
    .ok (.list (Val.ofList ((lines.take b).drop (f.getD 0))))
  htag : ∀ l g, hdr l = some g → g ≠ .none

def encTag : Option Val → Val
  | none => .none
  | some t => t

def itemAt (i : Nat) (l : Val) : Val := .tup (.cons (.int i) (.cons l .nil))

theorem zipIdx_items (rest : List Val) (i : Nat) :
    (rest.zipIdx i).map (fun p => Val.tup (.cons (.int (p.2 : Nat)) (.cons p.1 .nil))) =
      match rest with
      | [] => []
      | l :: tl => itemAt i l :: (tl.zipIdx (i + 1)).map (fun p => Val.tup (.cons (.int (p.2 : Nat)) (.cons p.1 .nil))) := by
  cases rest <;> simp [List.zipIdx_cons, itemAt]

/-- the loop, from any index on -/
theorem scanLoop (ext : Ext) (hdr : Val → Option Val) (lines : List Val) (hx : ScanExt ext hdr lines) (c : Val) :
    ∀ (rest : List Val) (i : Nat) (tag : Option Val) (first : Option Nat) (last : Val) (d : List (Val × Val)) (iv line m it : Option Val),
      (∀ t, tag = some t → t ≠ .none) →
      match scanV hdr lines i rest tag first d with
      | .ok out => ∃ first' tag' last' iv' line' m' it',
          Runs ext (.forVals "$it" (Val.ofList ((rest.zipIdx i).map fun p => Val.tup (.cons (.int (p.2 : Nat)) (.cons p.1 .nil)))) scanBody .skip)
            (pEnv c (.list (Val.ofList lines)) (encFirst first) (encTag tag) last d iv line m it)
            (.norm (pEnv c (.list (Val.ofList lines)) first' tag' last' out iv' line' m' it'))
      | .error err => ∃ env',
          Runs ext (.forVals "$it" (Val.ofList ((rest.zipIdx i).map fun p => Val.tup (.cons (.int (p.2 : Nat)) (.cons p.1 .nil)))) scanBody .skip)
            (pEnv c (.list (Val.ofList lines)) (encFirst first) (encTag tag) last d iv line m it) (.exc err env') := by
  intro rest
  induction rest with
  | nil =>
    intro i tag first last d iv line m it _
    simp only [scanV, List.zipIdx_nil, List.map_nil, Val.ofList]
    exact ⟨_, _, _, _, _, _, _, Runs.forVals_nil (Runs.skip _ _)⟩
  | cons l rest ih =>
    intro i tag first last d iv line m it htag
    have hitems := zipIdx_items (l :: rest) i
    simp only [] at hitems
    rw [hitems]
    simp only [Val.ofList]
    have hset : setVar (pEnv c (.list (Val.ofList lines)) (encFirst first) (encTag tag) last d iv line m it) "$it" (itemAt i l)
        = pEnv c (.list (Val.ofList lines)) (encFirst first) (encTag tag) last d iv line m (some (itemAt i l)) := by
      simp [pEnv, setVar]
    -- the continuation, packaged: whatever one turn of the body does to the registers, the rest of the loop follows by `ih`
    have cont : ∀ (tag2 : Option Val) (first2 : Option Nat) (last2 : Val) (d2 : List (Val × Val)) (m2 : Option Val),
        (∀ t, tag2 = some t → t ≠ .none) →
        Runs ext scanBody (pEnv c (.list (Val.ofList lines)) (encFirst first) (encTag tag) last d iv line m (some (itemAt i l)))
          (.norm (pEnv c (.list (Val.ofList lines)) (encFirst first2) (encTag tag2) last2 d2 (some (.int i)) (some l) m2 (some (itemAt i l)))) →
        match scanV hdr lines (i + 1) rest tag2 first2 d2 with
        | .ok out => ∃ first' tag' last' iv' line' m' it',
            Runs ext (.forVals "$it" (.cons (itemAt i l) (Val.ofList ((rest.zipIdx (i + 1)).map fun p => Val.tup (.cons (.int (p.2 : Nat)) (.cons p.1 .nil))))) scanBody .skip)
              (pEnv c (.list (Val.ofList lines)) (encFirst first) (encTag tag) last d iv line m it)
              (.norm (pEnv c (.list (Val.ofList lines)) first' tag' last' out iv' line' m' it'))
        | .error err => ∃ env',
            Runs ext (.forVals "$it" (.cons (itemAt i l) (Val.ofList ((rest.zipIdx (i + 1)).map fun p => Val.tup (.cons (.int (p.2 : Nat)) (.cons p.1 .nil))))) scanBody .skip)
              (pEnv c (.list (Val.ofList lines)) (encFirst first) (encTag tag) last d iv line m it) (.exc err env') := by
      intro tag2 first2 last2 d2 m2 htag2 hb
      have h2 := ih (i + 1) tag2 first2 last2 d2 (some (.int i)) (some l) m2 (some (itemAt i l)) htag2
      cases hs : scanV hdr lines (i + 1) rest tag2 first2 d2 with
      | error err =>
        rw [hs] at h2
        obtain ⟨env', h2⟩ := h2
        exact ⟨env', Runs.forVals_step (Or.inl (by rw [hset]; exact hb)) h2⟩
      | ok out =>
        rw [hs] at h2
        obtain ⟨f', t', l', iv', ln', m', it', h2⟩ := h2
        exact ⟨f', t', l', iv', ln', m', it', Runs.forVals_step (Or.inl (by rw [hset]; exact hb)) h2⟩
    cases tag with
    | none =>
      simp only [scanV]
      cases hh : hdr l with
      | none =>
        refine ⟨_, Runs.forVals_exit (r := .exc .regexNotMatch
          (pEnv c (.list (Val.ofList lines)) (encFirst first) .none last d (some (.int i)) (some l) (some .none) (some (itemAt i l)))) ?_ (Or.inr ⟨_, _, rfl⟩)⟩
        rw [hset]
        refine runs_of_exec 8 fun k => ?_
        have hm := hx.hmatch l
        rw [hh] at hm
        simp [scanBody, exec, evalExpr, pEnv, encTag, lookup, setVar, bindAll, itemAt, seqOf, Val.toList?, bind, Except.bind, hm]
      | some g =>
        have hg := hx.htag l g hh
        have hm := hx.hmatch l
        rw [hh] at hm
        have hgr : ext ".group" [Val.obj "Match" (Val.field "g1" g Val.fnil), Val.int 1] = .ok g := hx.hgroup g
        refine cont (some g) first last d (some (matchObj g)) (by intro t ht; cases ht; exact hg) ?_
        refine runs_of_exec 8 fun k => ?_
        simp [scanBody, exec, evalExpr, pEnv, encTag, lookup, setVar, bindAll, itemAt, seqOf, Val.toList?, bind, Except.bind, hm, matchObj, truth, hgr]
    | some t =>
      have ht := htag t rfl
      have htn : (t == Val.none) = false := by simpa using ht
      simp only [scanV]
      by_cases ho : (l == openB) = true
      · simp only [ho, if_true]
        refine cont (some t) (some (i + 1)) last d m (by intro t' h; cases h; exact ht) ?_
        refine runs_of_exec 8 fun k => ?_
        have ho' : (l == Val.str [123]) = true := ho
        have hcast : ((i + 1 : Nat) : Int) = (i : Int) + 1 := by omega
        simp [hcast, scanBody, exec, evalExpr, pEnv, encTag, encFirst, lookup, setVar, bindAll, itemAt, seqOf, Val.toList?, bind, Except.bind, htn, ho', evalBin]
      · have ho' : (l == Val.str [123]) = false := by simpa [openB] using ho
        simp only [ho, Bool.false_eq_true, if_false]
        by_cases hc : (l == closeB) = true
        · simp only [hc, if_true]
          have hc' : (l == Val.str [125]) = true := hc
          have hs := hx.hslice first i
          refine cont none none .none (dictSet d t (.list (Val.ofList ((lines.take i).drop (first.getD 0))))) m (by intro t' h; cases h) ?_
          refine runs_of_exec 10 fun k => ?_
          have harith : ((i : Int) - 1 + 1) = (i : Int) := by omega
          have hfn : encFirst none = Val.none := rfl
          simp [scanBody, exec, evalExpr, pEnv, encTag, hfn, lookup, setVar, bindAll, itemAt, seqOf, Val.toList?, bind, Except.bind, htn, ho', hc',
            evalBin, harith, hs, setAt, dictEntries_enc]
        · have hc' : (l == Val.str [125]) = false := by simpa [closeB] using hc
          simp only [hc, Bool.false_eq_true, if_false]
          refine cont (some t) first last d m (by intro t' h; cases h; exact ht) ?_
          refine runs_of_exec 8 fun k => ?_
          simp [scanBody, exec, evalExpr, pEnv, encTag, lookup, setVar, bindAll, itemAt, seqOf, Val.toList?, bind, Except.bind, htn, ho', hc']

/-- **`_partition_lines_by_data_section` is the index-based scanner** -/
theorem partitionLines_tie (ext : Ext) (hdr : Val → Option Val) (lines : List Val) (hx : ScanExt ext hdr lines) (c : Val) :
    Returns ext Gen.Imp.partitionLines (initEnv [("cls", c), ("lines", .list (Val.ofList lines))] Gen.Imp.partitionLinesLocals)
      ((scanV hdr lines 0 lines none none []).map fun d => .dict (encEntries d)) := by
  let L : Val := .list (Val.ofList lines)
  let E := fun (f t la d : Option Val) => ([("cls", some c), ("lines", some L), ("curr_first_line_index", f), ("curr_header_tag", t),
    ("curr_last_line_index", la), ("d", d), ("i", none), ("line", none), ("m", none), ("$it", none)] : Env)
  have h0 : initEnv [("cls", c), ("lines", .list (Val.ofList lines))] Gen.Imp.partitionLinesLocals = E none none none none := by
    simp [initEnv, Gen.Imp.partitionLinesLocals, E, L]
  rw [h0]
  have e1 : Runs ext (.assign "d" (.lit (.dict .nil))) (E none none none none) (.norm (E none none none (some (.dict .nil)))) := by
    have := Runs.assign (ext := ext) (x := "d") (e := .lit (.dict .nil)) (v := .dict .nil) (env := E none none none none) (by simp [evalExpr])
    simpa [E, setVar] using this
  have e2 : Runs ext (.assign "curr_header_tag" (.lit .none)) (E none none none (some (.dict .nil))) (.norm (E none (some .none) none (some (.dict .nil)))) := by
    have := Runs.assign (ext := ext) (x := "curr_header_tag") (e := .lit .none) (v := .none) (env := E none none none (some (.dict .nil))) (by simp [evalExpr])
    simpa [E, setVar] using this
  have e3 : Runs ext (.assign "curr_first_line_index" (.lit .none)) (E none (some .none) none (some (.dict .nil)))
      (.norm (E (some .none) (some .none) none (some (.dict .nil)))) := by
    have := Runs.assign (ext := ext) (x := "curr_first_line_index") (e := .lit .none) (v := .none) (env := E none (some .none) none (some (.dict .nil))) (by simp [evalExpr])
    simpa [E, setVar] using this
  have e4 : Runs ext (.assign "curr_last_line_index" (.lit .none)) (E (some .none) (some .none) none (some (.dict .nil)))
      (.norm (pEnv c L (encFirst none) (encTag none) .none [] none none none none)) := by
    have := Runs.assign (ext := ext) (x := "curr_last_line_index") (e := .lit .none) (v := .none) (env := E (some .none) (some .none) none (some (.dict .nil))) (by simp [evalExpr])
    simpa [E, setVar, pEnv, encFirst, encTag, encEntries, Val.ofList] using this
  have hl := scanLoop ext hdr lines hx c lines 0 none none .none [] none none none none (by intro t h; cases h)
  have henum : evalExpr ext (pEnv c L (encFirst none) (encTag none) .none [] none none none none) (.enumerate (.var "lines"))
      = .ok (.list (Val.ofList ((lines.zipIdx 0).map fun p => Val.tup (.cons (.int (p.2 : Nat)) (.cons p.1 .nil))))) := by
    simp [evalExpr, pEnv, lookup, bind, Except.bind, L]
  unfold Gen.Imp.partitionLines
  cases hs : scanV hdr lines 0 lines none none [] with
  | error err =>
    rw [hs] at hl
    obtain ⟨env', hl⟩ := hl
    exact ⟨env', Runs.seq e1 (Runs.seq e2 (Runs.seq e3 (Runs.seq e4 (Runs.seq_stop (Runs.forIn_list henum hl) (by intro e; simp)))))⟩
  | ok out =>
    rw [hs] at hl
    obtain ⟨f', t', l', iv', ln', m', it', hl⟩ := hl
    exact Or.inl (Runs.seq e1 (Runs.seq e2 (Runs.seq e3 (Runs.seq e4 (Runs.seq (Runs.forIn_list henum hl)
      (Runs.ret (by simp [evalExpr, pEnv, lookup])))))))

end Chartparse.Tie
