import Chartparse.Tie.TsAt
import Chartparse.Model.Chart
/-! One step of the tempo accumulation — the arm of `BPMEvent.from_parsed_data` taken for every tempo line after the first, with the
    three functions it calls — *is* one step of the hand model's `buildFrom`: the strictly-increasing guard, the distance from the
    previous event, the float chain under the previous tempo, `timedelta(seconds=…)` rounding, the sum. And the lower numeral of a
    time signature is `2 ** exponent`, or the class default when the exponent is absent. -/
namespace Chartparse.Tie
open Chartparse Chartparse.Py Chartparse.Tempo Chartparse.F64

theorem tsLower_tie (l : Option Nat) :
    valueOf [("data.lower", match l with | some n => Val.int (n : Int) | none => Val.none)] Gen.Leaf.tsLower "lower_numeral" =
      .ok (.int (lowerOf l : Nat)) := by
  cases l with
  | none => simp [Gen.Leaf.tsLower, valueOf, execBody, evalExpr, Py.lookup, bind, Except.bind, lowerOf, Gen.defaultLowerNumeral]
  | some n =>
    have h : (Val.int (n : Int) == Val.none) = false := by
      simp [BEq.beq]
    simp [Gen.Leaf.tsLower, valueOf, execBody, evalExpr, Py.lookup, bind, Except.bind, lowerOf, evalBin, h]

def stepEnv (res : Int) (p : BpmEv) (t : Nat) (idx : Int) : Env :=
  [("data.tick", .int (t : Int)), ("prev_event.tick", .int ((p.tick : Nat) : Int)), ("prev_event.bpm", .flt p.bpm),
   ("prev_event.timestamp", .td p.ts), ("resolution", .int res), ("prev_event._proximal_bpm_event_index", .int idx)]

/-- the timestamp the step computes: `buildFrom`'s `p.ts + usOfSeconds s` under the same guard and the same errors -/
theorem bpmStep_tie (res : Int) (p : BpmEv) (t : Nat) (idx : Int) :
    valueOfC Gen.Leaf.bpmStepCalls (stepEnv res p t idx) Gen.Leaf.bpmStep "timestamp" =
      if t ≤ p.tick then .error .valueError
      else (secs (t - p.tick) p.bpm res).map (fun s => Val.td (p.ts + usOfSeconds s)) := by
  unfold valueOfC Gen.Leaf.bpmStep
  -- statement 1: the guard
  have g1 : evalExpr (stepEnv res p t idx) (.cmp .le (.var "data.tick") (.var "prev_event.tick")) =
      .ok (.bool (decide ((t : Rat) ≤ (p.tick : Rat)))) := by
    simp [evalExpr, stepEnv, Py.lookup, List.find?, evalCmp, sameKind, numVal, bind, Except.bind]
  by_cases hle : t ≤ p.tick
  · have : ((t : Rat) ≤ (p.tick : Rat)) := by exact_mod_cast hle
    simp only [execBodyC, g1, this, decide_true, bind, Except.bind, if_pos hle]
  have hlt : ¬ ((t : Rat) ≤ (p.tick : Rat)) := by
    intro h; exact hle (by exact_mod_cast h)
  simp only [execBodyC, g1, hlt, decide_false, bind, Except.bind, if_neg hle]
  -- statement 2: the distance
  have e_pt : evalExpr (stepEnv res p t idx) (.var "prev_event.tick") = .ok (.int ((p.tick : Nat) : Int)) := by
    simp [evalExpr, stepEnv, Py.lookup, List.find?]
  have e_t : evalExpr (stepEnv res p t idx) (.var "data.tick") = .ok (.int (t : Int)) := by
    simp [evalExpr, stepEnv, Py.lookup]
  have a2 := evalArgs2 (stepEnv res p t idx) _ _ _ _ e_pt e_t
  rw [a2]
  have hcall2 : Gen.Leaf.bpmStepCalls "chartparse.tick.between" [.int ((p.tick : Nat) : Int), .int (t : Int)] =
      evalBody [("a", .int ((p.tick : Nat) : Int)), ("b", .int (t : Int))] Gen.Leaf.tickBetween := by
    simp [Gen.Leaf.bpmStepCalls]
  simp only [hcall2, between_tie]
  have hd : ((((p.tick : Nat) : Int) - (t : Int)).natAbs : Int) = ((t - p.tick : Nat) : Int) := by omega
  rw [hd]
  generalize hdn : t - p.tick = d
  -- statement 3: the float chain under the previous tempo
  have e2_d : evalExpr (("ticks_since_prev", Val.int (d : Int)) :: stepEnv res p t idx) (.var "ticks_since_prev") = .ok (.int (d : Int)) := by
    simp [evalExpr, Py.lookup]
  have e2_b : evalExpr (("ticks_since_prev", Val.int (d : Int)) :: stepEnv res p t idx) (.var "prev_event.bpm") = .ok (.flt p.bpm) := by
    simp [evalExpr, stepEnv, Py.lookup, List.find?]
  have e2_r : evalExpr (("ticks_since_prev", Val.int (d : Int)) :: stepEnv res p t idx) (.var "resolution") = .ok (.int res) := by
    simp [evalExpr, stepEnv, Py.lookup, List.find?]
  have a3 := evalArgs3 _ _ _ _ _ _ _ e2_d e2_b e2_r
  rw [a3]
  have hcall3 : Gen.Leaf.bpmStepCalls "chartparse.tick.seconds_from_ticks_at_bpm" [.int (d : Int), .flt p.bpm, .int res] =
      evalBody [("ticks", .int (d : Int)), ("bpm", .flt p.bpm), ("resolution", .int res)] Gen.Leaf.secondsFromTicksAtBpm := by
    simp [Gen.Leaf.bpmStepCalls]
  simp only [hcall3, secs_tie]
  have hd0 : ¬ ((d : Int) < 0) := by omega
  simp only [hd0, if_false, secs, Int.toNat_natCast]
  by_cases hb : p.bpm ≤ 0
  · simp [hb, Except.map]
  by_cases hr : res ≤ 0
  · simp [hb, hr, Except.map]
  simp only [hb, hr, if_false, Except.map]
  -- statement 4: `timedelta(seconds=…)`, then the sum
  generalize hs : secsFromTicks d p.bpm res.toNat = sec
  have hsec : 0 ≤ sec := by rw [← hs]; exact secsFromTicks_nonneg _ _ _
  have e3_ts : evalExpr (("seconds_since_prev", Val.flt sec) :: ("ticks_since_prev", Val.int (d : Int)) :: stepEnv res p t idx)
      (.var "prev_event.timestamp") = .ok (.td p.ts) := by
    simp [evalExpr, stepEnv, Py.lookup, List.find?]
  have e3_td : evalExpr (("seconds_since_prev", Val.flt sec) :: ("ticks_since_prev", Val.int (d : Int)) :: stepEnv res p t idx)
      (.tdSeconds (.var "seconds_since_prev")) = .ok (.td (usOfSeconds sec)) := by
    simp [evalExpr, Py.lookup, bind, Except.bind, hsec]
  have a4 := evalArgs2 _ _ _ _ _ e3_ts e3_td
  rw [a4]
  have hcall4 : Gen.Leaf.bpmStepCalls "chartparse.time.add" [.td p.ts, .td (usOfSeconds sec)] =
      evalBody [("ts", .td p.ts), ("other", .td (usOfSeconds sec))] Gen.Leaf.timeAdd := by
    simp [Gen.Leaf.bpmStepCalls]
  simp only [hcall4, timeAdd_td_tie]
  -- statement 5 and the lookup
  simp [execBodyC, evalExpr, Py.lookup, List.find?, bind, Except.bind, stepEnv, evalBin]

end Chartparse.Tie
