import Chartparse.Tie.Nps
import Chartparse.Props.C16
/-! C16 about **the dumped code**: what `Chart._notes_per_second` does after counting — the dumped statements from the interval length
    on — raises `ValueError` on an empty or reversed interval, and otherwise returns the count divided by the interval's length in
    seconds up to a relative error of 3·2⁻⁵³ (the count enters as the closed-interval count, below 2⁵³). -/
namespace Chartparse.Tie
open Chartparse Chartparse.Py Chartparse.F64 Chartparse.Rate

theorem C16_nonpositive_code (notes : List Int) (s e : Int) (h : e ≤ s)
    (hc : fl (count notes s e : Rat) = (count notes s e : Rat)) :
    evalBody [("start_time", .td s), ("end_time", .td e), ("num_events_to_consider", .int (count notes s e))] Gen.Leaf.notesPerSecond =
      .error .valueError := by
  rw [nps_tie notes s e hc, Props.C16.nps_nonpositive notes s e h]
  rfl

theorem C16_value_code (notes : List Int) (s e : Int) (h : s < e) (hpos : 0 < count notes s e)
    (hc : fl (count notes s e : Rat) = (count notes s e : Rat)) :
    ∃ v, evalBody [("start_time", .td s), ("end_time", .td e), ("num_events_to_consider", .int (count notes s e))] Gen.Leaf.notesPerSecond =
        .ok (.flt v) ∧
      R (3 * u) v ((count notes s e : Rat) / (((e - s : Int) : Rat) / 1000000)) := by
  obtain ⟨v, hv, hr⟩ := Props.C16.nps_value notes s e h hpos
  exact ⟨v, by rw [nps_tie notes s e hc, hv]; rfl, hr⟩

end Chartparse.Tie
