import Chartparse.Tie.BpmDecode
import Chartparse.Tie.BpmValid
import Chartparse.Tie.BpmStep
import Chartparse.Tie.Anchor
import Chartparse.Props.C08
/-! C08 about **the dumped code**: for every positive tempo value `n` below 2⁵² the dumped decode of `BPMEvent.from_parsed_data` yields
    the float nearest `n/1000`, and the dumped `BPMEvent.__post_init__` accepts exactly that float; the dumped lower-numeral statement
    gives `2^l`, or 4 when the exponent is absent. -/
namespace Chartparse.Tie
open Chartparse Chartparse.Py Chartparse.F64 Chartparse.Tempo

theorem C08_bpm_code (n : Nat) (hn : 1 ≤ n) (hlt : n < 4503599627370496) :
    valueOf [("data.raw_bpm", .int (n : Int))] Gen.Leaf.bpmDecode "bpm" = .ok (.flt (fl ((n : Rat) / 1000))) ∧
    evalBody [("self.bpm", .flt (fl ((n : Rat) / 1000)))] Gen.Leaf.bpmValidate = .ok .none := by
  have h := Props.C08.C08_bpm n hn hlt
  constructor
  · rw [bpmDecode_tie (n : Int) (by omega), Int.toNat_natCast, h.1]
  · have hx : (0 : Rat) ≤ fl ((n : Rat) / 1000) := Chartparse.F64.fl_nonneg _
    rw [bpmValid_tie _ hx]
    have hv := h.2
    rw [h.1] at hv
    simp [hv]

theorem C08_ts_lower_code :
    valueOf [("data.lower", Val.none)] Gen.Leaf.tsLower "lower_numeral" = .ok (.int 4) ∧
    ∀ l : Nat, valueOf [("data.lower", Val.int (l : Int))] Gen.Leaf.tsLower "lower_numeral" = .ok (.int ((2 ^ l : Nat) : Int)) := by
  constructor
  · have := tsLower_tie none
    simpa [Props.C08.C08_ts_lower.1] using this
  · intro l
    have := tsLower_tie (some l)
    simpa [Props.C08.C08_ts_lower.2 l] using this

end Chartparse.Tie
