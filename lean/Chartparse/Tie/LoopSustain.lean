import Chartparse.Gen.Imp
import Chartparse.Proofs.ImpRules
import Chartparse.Model.Instrument
/-! `_refined_sustain_tuple` and `NoteEvent._longest_sustain` as written in /repo today (generator expressions under `all`, `next`, `max`):
    proved equal, for every tuple of optional lengths, to the decision "all absent → 0; all present ones equal → that length; else the
    tuple itself" and to "the largest present length, `ValueError` when none is present" — the hand model's `Inst.refine` / `Inst.longest`. -/
namespace Chartparse.Tie
open Chartparse Chartparse.PyImp

/-! ### generator expressions over a tuple held in a variable -/

theorem allGen_isNone (ext : Ext) (env : Env) (v : String) (it : Expr) (xs : List Val) (hit : evalExpr ext env it = .ok (.tup (Val.ofList xs))) :
    evalExpr ext env (.allGen v it (.lit (.bool true)) (.isNone (.var v))) = .ok (.bool (xs.all (· == .none))) := by
  simp [evalExpr, hit, bind, Except.bind, lookup_setVar_self, allM_pure]

theorem nextGen_notNone (ext : Ext) (env : Env) (v : String) (it : Expr) (xs : List Val) (hit : evalExpr ext env it = .ok (.tup (Val.ofList xs))) :
    evalExpr ext env (.nextGen v it (.not (.isNone (.var v))) (.var v)) =
      match xs.find? (fun x => !(x == .none)) with
      | some y => .ok y
      | none => .error (.internal "StopIteration") := by
  simp only [evalExpr, hit, bind, Except.bind, seqOf_tup, lookup_setVar_self, truth_bool]
  rw [firstM_pure (fun x => !(x == Val.none)) (fun x => x)]
  cases xs.find? (fun x => !(x == .none)) <;> simp

theorem allGen_noneOrEq (ext : Ext) (env : Env) (v w : String) (it : Expr) (xs : List Val) (f : Val) (hvw : (v == w) = false)
    (hit : evalExpr ext env it = .ok (.tup (Val.ofList xs))) (hw : lookup env w = .ok f) :
    evalExpr ext env (.allGen v it (.lit (.bool true)) (.or (.isNone (.var v)) (.cmp .eq (.var v) (.var w)))) =
      .ok (.bool (xs.all fun d => d == .none || d == f)) := by
  have hf : (fun x => evalExpr ext (setVar env v x) (.lit (.bool true)) >>= truth >>= fun b =>
      if b then evalExpr ext (setVar env v x) (.or (.isNone (.var v)) (.cmp .eq (.var v) (.var w))) >>= truth else .ok true)
      = fun x => .ok (x == .none || x == f) := by
    funext x
    by_cases hx : x = .none
    · subst hx; simp [evalExpr, lookup_setVar_self, bind, Except.bind]
    · have : (x == Val.none) = false := by simpa using hx
      simp [evalExpr, lookup_setVar_self, lookup_setVar_ne _ _ _ _ hvw, hw, bind, Except.bind, this]
  have hgoal : evalExpr ext env (.allGen v it (.lit (.bool true)) (.or (.isNone (.var v)) (.cmp .eq (.var v) (.var w)))) =
      (allM (fun x => evalExpr ext (setVar env v x) (.lit (.bool true)) >>= truth >>= fun b =>
        if b then evalExpr ext (setVar env v x) (.or (.isNone (.var v)) (.cmp .eq (.var v) (.var w))) >>= truth else .ok true) xs
        >>= fun b => .ok (.bool b)) := by
    rw [evalExpr, hit]
    simp [bind, Except.bind]
  rw [hgoal, hf, allM_pure]
  rfl

/-! ### `_refined_sustain_tuple` -/

def refineV (xs : List Val) : M Val :=
  if xs.all (· == .none) then .ok (.int 0)
  else match xs.find? (fun x => !(x == .none)) with
    | none => .error (.internal "StopIteration")
    | some f => if xs.all (fun d => d == .none || d == f) then .ok f else .ok (.tup (Val.ofList xs))

def rEnv (ST : Val) (first : Option Val) : Env := [("sustain_tuple", some ST), ("first_non_none_sustain", first)]

theorem refinedSustainTuple_tie (ext : Ext) (xs : List Val) :
    Returns ext Gen.Imp.refinedSustainTuple (initEnv [("sustain_tuple", .tup (Val.ofList xs))] Gen.Imp.refinedSustainTupleLocals) (refineV xs) := by
  have h0 : initEnv [("sustain_tuple", .tup (Val.ofList xs))] Gen.Imp.refinedSustainTupleLocals = rEnv (.tup (Val.ofList xs)) none := by
    simp [initEnv, Gen.Imp.refinedSustainTupleLocals, rEnv]
  rw [h0]
  have hst : ∀ fo, evalExpr ext (rEnv (.tup (Val.ofList xs)) fo) (.var "sustain_tuple") = .ok (.tup (Val.ofList xs)) := by
    intro fo; simp [evalExpr, rEnv, lookup]
  have h1 := allGen_isNone ext (rEnv (.tup (Val.ofList xs)) none) "s" (.var "sustain_tuple") xs (hst none)
  unfold Gen.Imp.refinedSustainTuple refineV
  by_cases ha : xs.all (· == .none) = true
  · simp only [ha, if_true, Returns]
    exact Or.inl (Runs.seq_stop (Runs.ite_true (by rw [h1, ha]; rfl) (Runs.ret (by simp [evalExpr]))) (by intro e; simp))
  · have ha' : xs.all (· == .none) = false := by simpa using ha
    simp only [ha', Bool.false_eq_true, if_false]
    have s1 : Runs ext (.ite (.allGen "s" (.var "sustain_tuple") (.lit (.bool true)) (.isNone (.var "s"))) (.ret (.lit (.int 0))) .skip)
        (rEnv (.tup (Val.ofList xs)) none) (.norm (rEnv (.tup (Val.ofList xs)) none)) :=
      Runs.ite_false (by rw [h1, ha']; rfl) (Runs.skip _ _)
    have h2 := nextGen_notNone ext (rEnv (.tup (Val.ofList xs)) none) "s" (.var "sustain_tuple") xs (hst none)
    cases hf : xs.find? (fun x => !(x == .none)) with
    | none =>
      rw [hf] at h2
      simp only [Returns]
      exact ⟨_, Runs.seq s1 (Runs.seq_stop (Runs.assign_err h2) (by intro e; simp))⟩
    | some f =>
      rw [hf] at h2
      have s2 : Runs ext (.assign "first_non_none_sustain" (.nextGen "s" (.var "sustain_tuple") (.not (.isNone (.var "s"))) (.var "s")))
          (rEnv (.tup (Val.ofList xs)) none) (.norm (rEnv (.tup (Val.ofList xs)) (some f))) := by
        have := Runs.assign (x := "first_non_none_sustain") h2
        simpa [rEnv, setVar] using this
      have h3 := allGen_noneOrEq ext (rEnv (.tup (Val.ofList xs)) (some f)) "d" "first_non_none_sustain" (.var "sustain_tuple") xs f (by decide)
        (hst _) (by simp [rEnv, lookup])
      simp only []
      by_cases hb : (xs.all fun d => d == .none || d == f) = true
      · simp only [hb, if_true, Returns]
        exact Or.inl (Runs.seq s1 (Runs.seq s2 (Runs.seq_stop (Runs.ite_true (by rw [h3, hb]; rfl)
          (Runs.ret (by simp [evalExpr, rEnv, lookup]))) (by intro e; simp))))
      · have hb' : (xs.all fun d => d == .none || d == f) = false := by simpa using hb
        simp only [hb', Bool.false_eq_true, if_false, Returns]
        exact Or.inl (Runs.seq s1 (Runs.seq s2 (Runs.seq (Runs.ite_false (by rw [h3, hb']; rfl) (Runs.skip _ _))
          (Runs.ret (by simp [evalExpr, rEnv, lookup, bind, Except.bind])))))

/-! ### `NoteEvent._longest_sustain` -/

theorem maxGen_notNone (ext : Ext) (env : Env) (v : String) (it : Expr) (xs : List Val) (hit : evalExpr ext env it = .ok (.tup (Val.ofList xs))) :
    evalExpr ext env (.maxGen v it (.not (.isNone (.var v))) (.var v)) =
      match xs.filter (fun x => !(x == .none)) with
      | [] => .error .valueError
      | y :: ys => match maxInts (y :: ys) with
        | some m => .ok (.int m)
        | none => unsupported "max of non-ints" := by
  simp only [evalExpr, hit, bind, Except.bind, seqOf_tup, lookup_setVar_self, truth_bool]
  rw [compM_pure (fun x => !(x == Val.none)) (fun x => x)]
  simp only [List.map_id']
  cases xs.filter (fun x => !(x == .none)) <;> rfl

theorem longestSustain_int (ext : Ext) (n : Int) :
    Returns ext Gen.Imp.longestSustain (initEnv [("sustain", .int n)] Gen.Imp.longestSustainLocals) (.ok (.int n)) := by
  have h0 : initEnv [("sustain", .int n)] Gen.Imp.longestSustainLocals = [("sustain", some (.int n))] := by
    simp [initEnv, Gen.Imp.longestSustainLocals]
  rw [h0]
  unfold Gen.Imp.longestSustain
  exact Or.inl (runs_of_exec 5 fun k => by simp [exec, evalExpr, lookup, bind, Except.bind, isIntB])

def longestV (xs : List Val) : M Val :=
  if xs.all (· == .none) then .error .valueError
  else match xs.filter (fun x => !(x == .none)) with
    | [] => .error .valueError
    | y :: ys => match maxInts (y :: ys) with
      | some m => .ok (.int m)
      | none => unsupported "max of non-ints"

theorem longestSustain_tup (ext : Ext) (xs : List Val) :
    Returns ext Gen.Imp.longestSustain (initEnv [("sustain", .tup (Val.ofList xs))] Gen.Imp.longestSustainLocals) (longestV xs) := by
  have h0 : initEnv [("sustain", .tup (Val.ofList xs))] Gen.Imp.longestSustainLocals = [("sustain", some (.tup (Val.ofList xs)))] := by
    simp [initEnv, Gen.Imp.longestSustainLocals]
  rw [h0]
  have hst : evalExpr ext [("sustain", some (.tup (Val.ofList xs)))] (.var "sustain") = .ok (.tup (Val.ofList xs)) := by
    simp [evalExpr, lookup]
  have h1 := allGen_isNone ext [("sustain", some (.tup (Val.ofList xs)))] "s" (.var "sustain") xs hst
  have h2 := maxGen_notNone ext [("sustain", some (.tup (Val.ofList xs)))] "s" (.var "sustain") xs hst
  have s1 : Runs ext (.ite (.isInt (.var "sustain")) (.ret (.var "sustain")) .skip) [("sustain", some (.tup (Val.ofList xs)))]
      (.norm [("sustain", some (.tup (Val.ofList xs)))]) :=
    Runs.ite_false (by simp [evalExpr, lookup, bind, Except.bind, isIntB]) (Runs.skip _ _)
  unfold Gen.Imp.longestSustain longestV
  by_cases ha : xs.all (· == .none) = true
  · simp only [ha, if_true, Returns]
    exact ⟨_, Runs.seq s1 (Runs.seq_stop (Runs.ite_true (by rw [h1, ha]; rfl) (Runs.raise _ _ _)) (by intro e; simp))⟩
  · have ha' : xs.all (· == .none) = false := by simpa using ha
    simp only [ha', Bool.false_eq_true, if_false]
    have s2 : Runs ext (.ite (.allGen "s" (.var "sustain") (.lit (.bool true)) (.isNone (.var "s"))) (.raise .valueError) .skip)
        [("sustain", some (.tup (Val.ofList xs)))] (.norm [("sustain", some (.tup (Val.ofList xs)))]) :=
      Runs.ite_false (by rw [h1, ha']; rfl) (Runs.skip _ _)
    cases hf : xs.filter (fun x => !(x == .none)) with
    | nil =>
      rw [hf] at h2
      exact ⟨_, Runs.seq s1 (Runs.seq s2 (Runs.ret_err h2))⟩
    | cons y ys =>
      rw [hf] at h2
      simp only []
      cases hm : maxInts (y :: ys) with
      | none =>
        simp only [hm] at h2
        exact ⟨_, Runs.seq s1 (Runs.seq s2 (Runs.ret_err h2))⟩
      | some m =>
        simp only [hm] at h2
        exact Or.inl (Runs.seq s1 (Runs.seq s2 (Runs.ret h2)))

/-! ### … and they are `Inst.refine` / `Inst.longest` -/

def encOpt : Option Nat → Val
  | none => .none
  | some n => .int n

def encSus : Inst.Sustain → Val
  | .ticks n => .int n
  | .tuple l => .tup (Val.ofList (l.map encOpt))

theorem encOpt_eq_none (o : Option Nat) : (encOpt o == Val.none) = o.isNone := by cases o <;> simp [encOpt]

theorem encOpt_inj (a b : Option Nat) : (encOpt a == encOpt b) = (a == b) := by
  cases a <;> cases b <;> simp [encOpt]
  rename_i x y
  by_cases h : x = y
  · simp [h]
  · have : ¬ ((x : Int) = (y : Int)) := by omega
    have h1 : (Val.int (x : Int) == Val.int (y : Int)) = false := by
      rw [beq_eq_false_iff_ne]; intro e; injection e with e; exact this e
    have h2 : (x == y) = false := by simpa using h
    rw [h1, h2]

theorem refineV_refine (l : List (Option Nat)) : refineV (l.map encOpt) = .ok (encSus (Inst.refine l)) := by
  unfold refineV Inst.refine
  have hall : (l.map encOpt).all (· == .none) = l.all Option.isNone := by
    simp [List.all_map, Function.comp_def, encOpt_eq_none]
  have hfind : (l.map encOpt).find? (fun x => !(x == .none)) = (l.find? Option.isSome).map encOpt := by
    rw [List.find?_map]
    congr 1
    have : ((fun x => !(x == Val.none)) ∘ encOpt) = Option.isSome := by
      funext o; cases o <;> simp [encOpt]
    rw [this]
  rw [hall, hfind]
  cases hf : l.find? Option.isSome with
  | none =>
    have : l.all Option.isNone = true := by
      rw [List.all_eq_true]
      intro o ho
      have := List.find?_eq_none.mp hf o ho
      cases o <;> simp_all
    simp [this, encSus]
  | some o =>
    have hs := List.find?_some hf
    cases o with
    | none => simp at hs
    | some f =>
      have hmem := List.mem_of_find?_eq_some hf
      have : l.all Option.isNone = false := by
        rw [Bool.eq_false_iff]
        intro h
        have := (List.all_eq_true.mp h) _ hmem
        simp at this
      simp only [this, Bool.false_eq_true, if_false, Option.map_some]
      have hall2 : ((l.map encOpt).all fun d => d == Val.none || d == encOpt (some f)) = l.all fun d => d.isNone || d == some f := by
        simp [List.all_map, Function.comp_def, encOpt_eq_none, encOpt_inj]
      rw [hall2]
      by_cases hc : (l.all fun d => d.isNone || d == some f) = true
      · simp [hc, encSus, encOpt]
      · have hc' : (l.all fun d => d.isNone || d == some f) = false := by simpa using hc
        simp [hc', encSus]

end Chartparse.Tie

namespace Chartparse.Tie
open Chartparse Chartparse.PyImp

/-! ### `complex_sustain_from_parsed_datas` -/

def OPEN : Val := .obj "NoteTrackIndex" (.field "name" (.str [80]) (.field "value" (.int 7) .fnil))

theorem compM_mem (c : Val → M Bool) (e : Val → M Val) (p : Val → Bool) (q : Val → Val) :
    ∀ xs : List Val, (∀ x ∈ xs, c x = .ok (p x) ∧ e x = .ok (q x)) → compM c e xs = .ok ((xs.filter p).map q) := by
  intro xs
  induction xs with
  | nil => intro _; rfl
  | cons x xs ih =>
    intro h
    obtain ⟨hc, he⟩ := h x (by simp)
    have := ih (fun y hy => h y (by simp [hy]))
    simp only [compM, hc, he, this, bind, Except.bind, List.filter_cons]
    cases p x <;> simp

/-- the per-lane list: every 5-note line writes its length into its lane's slot (an index outside the list would be an `IndexError`) -/
def fillV (idx : Val → Int) (sus : Val → Val) : List Val → List Val → M (List Val)
  | [], acc => .ok acc
  | d :: ds, acc => match normIdx (idx d) acc.length with
    | some j => fillV idx sus ds (acc.set j (sus d))
    | none => .error (.internal "IndexError")

def csEnv (D : Val) (d : Option Val) (l : List Val) : Env := [("datas", some D), ("d", d), ("sustain_list", some (.list (Val.ofList l)))]

def csBody : Stmt := (.setIdx "sustain_list" (.attr (.attr (.var "d") "note_track_index") "value") (.attr (.var "d") "sustain"))

theorem csLoop (ext : Ext) (nti : Val → Val) (idx : Val → Int) (sus : Val → Val) (D : Val) :
    ∀ (xs : List Val), (∀ x ∈ xs, attrVal x "note_track_index" = .ok (nti x) ∧ attrVal (nti x) "value" = .ok (.int (idx x)) ∧ attrVal x "sustain" = .ok (sus x)) →
    ∀ (d0 : Option Val) (acc : List Val),
      match fillV idx sus xs acc with
      | .ok out => ∃ d', Runs ext (.forVals "d" (Val.ofList xs) csBody .skip) (csEnv D d0 acc) (.norm (csEnv D d' out))
      | .error err => ∃ env', Runs ext (.forVals "d" (Val.ofList xs) csBody .skip) (csEnv D d0 acc) (.exc err env') := by
  intro xs
  induction xs with
  | nil => intro _ d0 acc; exact ⟨d0, by simpa [fillV, Val.ofList] using Runs.forVals_nil (Runs.skip ext _)⟩
  | cons x xs ih =>
    intro h d0 acc
    obtain ⟨h1, h2, h3⟩ := h x (by simp)
    have hset : setVar (csEnv D d0 acc) "d" x = csEnv D (some x) acc := by simp [csEnv, setVar]
    simp only [fillV, Val.ofList]
    have hi : evalExpr ext (csEnv D (some x) acc) (.attr (.attr (.var "d") "note_track_index") "value") = .ok (.int (idx x)) := by
      simp [evalExpr, csEnv, lookup, bind, Except.bind, h1, h2]
    have hv : evalExpr ext (csEnv D (some x) acc) (.attr (.var "d") "sustain") = .ok (sus x) := by
      simp [evalExpr, csEnv, lookup, bind, Except.bind, h3]
    cases hj : normIdx (idx x) acc.length with
    | none =>
      exact ⟨_, Runs.forVals_exit (by
        rw [hset]
        exact Runs.setIdx_err (err := .internal "IndexError") (by rw [hv, hi]; simp [csEnv, lookup, bind, Except.bind, setAt, hj])) (Or.inr ⟨_, _, rfl⟩)⟩
    | some j =>
      have hb : Runs ext csBody (csEnv D (some x) acc) (.norm (csEnv D (some x) (acc.set j (sus x)))) := by
        have := Runs.setIdx (ext := ext) (x := "sustain_list") (i := .attr (.attr (.var "d") "note_track_index") "value") (e := .attr (.var "d") "sustain")
          (env := csEnv D (some x) acc) (nl := .list (Val.ofList (acc.set j (sus x))))
          (by rw [hv, hi]; simp [csEnv, lookup, bind, Except.bind, setAt, hj])
        simpa [csEnv, setVar, csBody] using this
      have h2' := ih (fun y hy => h y (by simp [hy])) (some x) (acc.set j (sus x))
      simp only []
      cases hf : fillV idx sus xs (acc.set j (sus x)) with
      | error err =>
        rw [hf] at h2'
        obtain ⟨env', h2'⟩ := h2'
        exact ⟨env', Runs.forVals_step (Or.inl (by rw [hset]; exact hb)) h2'⟩
      | ok out =>
        rw [hf] at h2'
        obtain ⟨d', h2'⟩ := h2'
        exact ⟨d', Runs.forVals_step (Or.inl (by rw [hset]; exact hb)) h2'⟩

/-- the function's answer -/
def complexV (ext : Ext) (nti : Val → Val) (is5 : Val → Bool) (idx : Val → Int) (sus : Val → Val) (ds : List Val) : M Val :=
  match ds with
  | [] => .error (.internal "IndexError")
  | d0 :: _ =>
    if nti d0 == OPEN then .ok (sus d0)
    else fillV idx sus (ds.filter fun d => is5 (nti d)) [.none, .none, .none, .none, .none] >>= fun l =>
      ext "_refined_sustain_tuple" [.tup (Val.ofList l)]

theorem complexSustain_tie (ext : Ext) (nti : Val → Val) (is5 : Val → Bool) (idx : Val → Int) (sus : Val → Val) (ds : List Val)
    (h : ∀ x ∈ ds, attrVal x "note_track_index" = .ok (nti x) ∧ attrVal (nti x) "value" = .ok (.int (idx x)) ∧ attrVal x "sustain" = .ok (sus x))
    (h5 : ∀ v, ext ".is_5_note" [v] = .ok (.bool (is5 v))) :
    Returns ext Gen.Imp.complexSustain (initEnv [("datas", .list (Val.ofList ds))] Gen.Imp.complexSustainLocals)
      (complexV ext nti is5 idx sus ds) := by
  have h0 : initEnv [("datas", .list (Val.ofList ds))] Gen.Imp.complexSustainLocals
      = [("datas", some (.list (Val.ofList ds))), ("d", none), ("sustain_list", none)] := by
    simp [initEnv, Gen.Imp.complexSustainLocals]
  rw [h0]
  unfold Gen.Imp.complexSustain complexV
  cases ds with
  | nil =>
    have hidx0 : indexVal (.list (Val.ofList [])) (.int 0) = .error (.internal "IndexError") := indexVal_list_oob [] 0 (by simp)
    exact ⟨_, Runs.seq_stop (Runs.ite_err (err := .internal "IndexError") (by
      simp [evalExpr, lookup, bind, Except.bind, hidx0])) (by intro e; simp)⟩
  | cons d0 rest =>
    obtain ⟨g1, g2, g3⟩ := h d0 (by simp)
    have hidx : indexVal (.list (Val.ofList (d0 :: rest))) (.int 0) = .ok d0 := indexVal_list_nat (d0 :: rest) 0 (by simp)
    have hc : evalExpr ext [("datas", some (.list (Val.ofList (d0 :: rest)))), ("d", none), ("sustain_list", none)]
        (.cmp .eq (.attr (.index (.var "datas") (.lit (.int 0))) "note_track_index") (.lit OPEN)) >>= truth = .ok (nti d0 == OPEN) := by
      simp [evalExpr, lookup, bind, Except.bind, hidx, g1]
    simp only []
    by_cases ho : (nti d0 == OPEN) = true
    · simp only [ho, if_true, Returns]
      exact Or.inl (Runs.seq_stop (Runs.ite_true (by rw [show OPEN = Val.obj "NoteTrackIndex" (.field "name" (.str [80]) (.field "value" (.int 7) .fnil)) from rfl] at hc ho; rw [hc, ho])
        (Runs.ret (by simp [evalExpr, lookup, bind, Except.bind, hidx, g3]))) (by intro e; simp))
    · have ho' : (nti d0 == OPEN) = false := by simpa using ho
      simp only [ho', Bool.false_eq_true, if_false]
      have s1 : Runs ext (.ite (.cmp .eq (.attr (.index (.var "datas") (.lit (.int 0))) "note_track_index") (.lit OPEN))
          (.ret (.attr (.index (.var "datas") (.lit (.int 0))) "sustain")) .skip)
          [("datas", some (.list (Val.ofList (d0 :: rest)))), ("d", none), ("sustain_list", none)]
          (.norm [("datas", some (.list (Val.ofList (d0 :: rest)))), ("d", none), ("sustain_list", none)]) :=
        Runs.ite_false (by rw [hc, ho']) (Runs.skip _ _)
      have s2 : Runs ext (.assign "sustain_list" (.bin .mul (.mkList (.econs (.lit .none) .enil)) (.lit (.int 5))))
          [("datas", some (.list (Val.ofList (d0 :: rest)))), ("d", none), ("sustain_list", none)]
          (.norm (csEnv (.list (Val.ofList (d0 :: rest))) none [.none, .none, .none, .none, .none])) := by
        have := Runs.assign (ext := ext) (x := "sustain_list") (e := .bin .mul (.mkList (.econs (.lit .none) .enil)) (.lit (.int 5)))
          (v := .list (Val.ofList [.none, .none, .none, .none, .none]))
          (env := [("datas", some (.list (Val.ofList (d0 :: rest)))), ("d", none), ("sustain_list", none)])
          (by simp [evalExpr, bind, Except.bind, evalBin, Val.toList?, List.replicate, Val.ofList])
        simpa [setVar, csEnv] using this
      have hcomp : evalExpr ext (csEnv (.list (Val.ofList (d0 :: rest))) none [.none, .none, .none, .none, .none])
          (.comp "d" (.var "datas") (.call ".is_5_note" (.econs (.attr (.var "d") "note_track_index") .enil)) (.var "d"))
          = .ok (.list (Val.ofList ((d0 :: rest).filter fun d => is5 (nti d)))) := by
        have hm := compM_mem
          (fun x => evalExpr ext (setVar (csEnv (.list (Val.ofList (d0 :: rest))) none [.none, .none, .none, .none, .none]) "d" x)
            (.call ".is_5_note" (.econs (.attr (.var "d") "note_track_index") .enil)) >>= truth)
          (fun x => evalExpr ext (setVar (csEnv (.list (Val.ofList (d0 :: rest))) none [.none, .none, .none, .none, .none]) "d" x) (.var "d"))
          (fun d => is5 (nti d)) (fun d => d) (d0 :: rest) (by
            intro x hx
            obtain ⟨a1, _, _⟩ := h x hx
            constructor
            · simp [evalExpr, lookup_setVar_self, bind, Except.bind, a1, Val.toList?, h5]
            · simp [evalExpr, lookup_setVar_self])
        have hd : evalExpr ext (csEnv (.list (Val.ofList (d0 :: rest))) none [.none, .none, .none, .none, .none]) (.var "datas")
            = .ok (.list (Val.ofList (d0 :: rest))) := by simp [evalExpr, csEnv, lookup]
        rw [evalExpr, hd]
        simp only [bind, Except.bind, seqOf_list] at hm ⊢
        rw [hm]
        simp
      have hfill := csLoop ext nti idx sus (.list (Val.ofList (d0 :: rest))) ((d0 :: rest).filter fun d => is5 (nti d))
        (fun x hx => h x (List.mem_filter.mp hx).1) none [.none, .none, .none, .none, .none]
      cases hf : fillV idx sus ((d0 :: rest).filter fun d => is5 (nti d)) [.none, .none, .none, .none, .none] with
      | error err =>
        rw [hf] at hfill
        obtain ⟨env', hfill⟩ := hfill
        exact ⟨env', Runs.seq s1 (Runs.seq s2 (Runs.seq_stop (Runs.forIn_list hcomp hfill) (by intro e; simp)))⟩
      | ok out =>
        rw [hf] at hfill
        obtain ⟨d', hfill⟩ := hfill
        have hcall : evalExpr ext (csEnv (.list (Val.ofList (d0 :: rest))) d' out) (.call "_refined_sustain_tuple" (.econs (.toTup (.var "sustain_list")) .enil))
            = ext "_refined_sustain_tuple" [.tup (Val.ofList out)] := by
          simp [evalExpr, csEnv, lookup, bind, Except.bind, Val.toList?]
        simp only [bind, Except.bind]
        exact Returns.seq_norm s1 (Returns.seq_norm s2 (Returns.seq_norm (Runs.forIn_list hcomp hfill) (Returns.ret_of _ hcall)))

end Chartparse.Tie

namespace Chartparse.Tie
open Chartparse Chartparse.PyImp

/-- the per-lane list the dumped loop builds is the hand model's `Inst.fill` (5-note lines only; each writes its own slot) -/
theorem fillV_fill (enc : Inst.NDatum → Val) (idx : Val → Int) (sus : Val → Val) (hidx : ∀ d, idx (enc d) = d.idx)
    (hsus : ∀ d, sus (enc d) = .int d.sus) :
    ∀ (g : List Inst.NDatum) (acc : List (Option Nat)), acc.length = 5 →
      fillV idx sus ((g.filter fun d => decide (d.idx ≤ 4)).map enc) (acc.map encOpt) =
        .ok ((g.foldl (fun a d => if d.idx ≤ 4 then a.set d.idx (some d.sus) else a) acc).map encOpt) := by
  intro g
  induction g with
  | nil => intro acc _; simp [fillV]
  | cons d g ih =>
    intro acc hlen
    by_cases h4 : d.idx ≤ 4
    · have hn : normIdx ((d.idx : Nat) : Int) (acc.map encOpt).length = some d.idx := by
        rw [List.length_map, hlen]; exact normIdx_nat d.idx 5 (by omega)
      simp only [List.filter_cons, h4, decide_true, if_true, List.map_cons, fillV, hidx, hn, hsus, List.foldl_cons]
      have hset : (acc.map encOpt).set d.idx (Val.int d.sus) = (acc.set d.idx (some d.sus)).map encOpt := by
        rw [List.map_set]; rfl
      rw [hset]
      exact ih _ (by simp [hlen])
    · simp only [List.filter_cons, h4, decide_false, Bool.false_eq_true, if_false, List.foldl_cons]
      exact ih acc hlen

end Chartparse.Tie
