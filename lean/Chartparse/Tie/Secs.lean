import Chartparse.Tie.Common
/-! `chartparse.tick.seconds_from_ticks_at_bpm`, as written in /repo today, *is* the hand model's `secsFromTicks`
    (same guards in the same order, same float operations in the same association). -/
namespace Chartparse.Tie
open Chartparse Chartparse.Py Chartparse.F64

theorem secs_tie (t r : Int) (b : Rat) :
    evalBody [("ticks", .int t), ("bpm", .flt b), ("resolution", .int r)] Gen.Leaf.secondsFromTicksAtBpm =
      if t < 0 then .error .valueError
      else if b ≤ 0 then .error .valueError
      else if r ≤ 0 then .error .valueError
      else .ok (.flt (secsFromTicks t.toNat b r.toNat)) := by
  by_cases ht : t < 0
  · simp [Gen.Leaf.secondsFromTicksAtBpm, evalBody, evalExpr, lookup, evalCmp, sameKind, numVal, ht, bind, Except.bind]
  by_cases hb : b ≤ 0
  · simp [Gen.Leaf.secondsFromTicksAtBpm, evalBody, evalExpr, lookup, evalCmp, sameKind, numVal, ht, hb, bind, Except.bind]
  by_cases hr : r ≤ 0
  · simp [Gen.Leaf.secondsFromTicksAtBpm, evalBody, evalExpr, lookup, evalCmp, sameKind, numVal, ht, hb, hr, bind, Except.bind]
  have hb' : 0 < b := by linarith [not_le.mp hb]
  have hr' : 0 < r := by omega
  have ht' : 0 ≤ t := by omega
  have hrn := natCast_toNat r (by omega)
  have htn := natCast_toNat t ht'
  have hflr : 0 < fl (r : Rat) := fl_pos _ (by exact_mod_cast hr')
  have htpm : 0 < fl (b * fl (r : Rat)) := fl_pos _ (mul_pos hb' hflr)
  have htps : 0 < fl (fl (b * fl (r : Rat)) / 60) := fl_pos _ (by positivity)
  have htps0 : fl (fl (b * fl (r : Rat)) / 60) ≠ 0 := ne_of_gt htps
  have e1 : fls (r : Rat) = fl (r : Rat) := fls_of_nonneg _ (by exact_mod_cast le_of_lt hr')
  have e2 : fls (b * fl (r : Rat)) = fl (b * fl (r : Rat)) := fls_of_nonneg _ (by positivity)
  have e3 : fls (60 : Rat) = 60 := by rw [fls_of_nonneg _ (by norm_num), fl_sixty]
  have e4 : fls (fl (b * fl (r : Rat)) / 60) = fl (fl (b * fl (r : Rat)) / 60) := fls_of_nonneg _ (by positivity)
  have e5 : fls (1 : Rat) = 1 := by rw [fls_of_nonneg _ (by norm_num), fl_one]
  have e6 : fls (1 / fl (fl (b * fl (r : Rat)) / 60)) = fl (1 / fl (fl (b * fl (r : Rat)) / 60)) := fls_of_nonneg _ (by positivity)
  have e7 : fls (t : Rat) = fl (t : Rat) := fls_of_nonneg _ (by exact_mod_cast ht')
  have hspt : 0 ≤ fl (1 / fl (fl (b * fl (r : Rat)) / 60)) := le_of_lt (fl_pos _ (by positivity))
  have hflt : 0 ≤ fl (t : Rat) := by
    rcases eq_or_lt_of_le ht' with h | h
    · rw [← h]; simp [fl_zero]
    · exact le_of_lt (fl_pos _ (by exact_mod_cast h))
  have e8 : fls (fl (t : Rat) * fl (1 / fl (fl (b * fl (r : Rat)) / 60))) = fl (fl (t : Rat) * fl (1 / fl (fl (b * fl (r : Rat)) / 60))) :=
    fls_of_nonneg _ (mul_nonneg hflt hspt)
  simp only [one_div] at e6 e8
  simp [Gen.Leaf.secondsFromTicksAtBpm, evalBody, evalExpr, lookup, evalCmp, evalBin, isFloatOp, toFlt, sameKind, numVal, ht, hb, hr,
    bind, Except.bind, e1, e2, e3, e4, e5, e6, e7, e8, htps0, secsFromTicks, hrn, htn]

end Chartparse.Tie
