import Chartparse.Tie.Common
/-! `BPMEvent.__post_init__` raises exactly when `round(bpm, 3) != bpm` — the hand model's `validBpm`. -/
namespace Chartparse.Tie
open Chartparse Chartparse.Py Chartparse.F64

theorem bpmValid_tie (x : Rat) (hx : 0 ≤ x) :
    evalBody [("self.bpm", .flt x)] Gen.Leaf.bpmValidate =
      if validBpm x then .ok .none else .error .valueError := by
  unfold validBpm
  by_cases h : round3 x = x
  · simp [Gen.Leaf.bpmValidate, evalBody, evalExpr, lookup, evalCmp, sameKind, numVal, bind, Except.bind, hx, h]
  · simp [Gen.Leaf.bpmValidate, evalBody, evalExpr, lookup, evalCmp, sameKind, numVal, bind, Except.bind, hx, h]

end Chartparse.Tie
