import Chartparse.Tie.Hopo
import Chartparse.Tie.NoteDur
import Chartparse.Props.C04
/-! C04 about **the dumped code**: `NoteEvent._compute_hopo_state`, as written in /repo's working tree, follows the rule as stated —
    tap wins, then "natural HOPO = not a chord, differs from the previous note, at most the threshold after it", flipped by the forced
    flag; a forced first note is a `ValueError` — and the threshold the dumped `note_duration_to_ticks` computes for the eighth triplet is
    `res/3` rounded to the nearest tick, for every resolution below 2⁵⁰. -/
namespace Chartparse.Tie
open Chartparse Chartparse.Py Chartparse.Inst Chartparse.F64

theorem C04_table_code (thr : Int) (tick : Nat) (lanes : List Bool) (tap forced : Bool) (prev : Option (Nat × List Bool))
    (h : ¬ (forced = true ∧ prev = none)) :
    evalBody (hopoEnv thr tick lanes tap forced prev) Gen.Leaf.computeHopoState =
      .ok (.enum (hopoName (rule thr tick lanes tap forced prev))) := by
  rw [hopo_tie, Props.C04.C04_table thr tick lanes tap forced prev h]
  rfl

theorem C04_first_forced_code (thr : Int) (tick : Nat) (lanes : List Bool) (tap : Bool) :
    evalBody (hopoEnv thr tick lanes tap true none) Gen.Leaf.computeHopoState = .error .valueError := by
  rw [hopo_tie, Props.C04.C04_first_forced]
  rfl

/-- the threshold as the dumped `note_duration_to_ticks` computes it for `NoteDuration.EIGHTH_TRIPLET` (value 3): `res/3` rounded to the
    nearest tick, for every resolution below 2⁵⁰ (beyond that binary64 gives out: the listed known finding) -/
theorem C04_threshold_code (res : Nat) (hlt : res < 1125899906842624) :
    evalBody [("resolution", .int (res : Int)), ("note_duration.value", .int 3)] Gen.Leaf.noteDurationToTicks =
      .ok (.int (((2 * res + 3) / 6 : Nat) : Int)) := by
  rw [noteDur_tie (res : Int) 3 (by omega) (by norm_num)]
  have h := Props.C04.threshold_float res hlt
  simp only [Int.toNat_natCast] at *
  have h3 : (3 : Int).toNat = 3 := rfl
  rw [h3, h]

end Chartparse.Tie
