import Chartparse.Tie.Hopo
import Chartparse.Tie.NoteDur
import Chartparse.Props.C04
import Chartparse.Tie.Phrase
/-! C04 about **the dumped code**: `NoteEvent._compute_hopo_state`, as written in /repo's working tree, follows the rule as stated —
    tap wins, then "natural HOPO = not a chord, differs from the previous note, at most the threshold after it", flipped by the forced
    flag; a forced first note is a `ValueError` — and the threshold the dumped `note_duration_to_ticks` computes for the eighth triplet is
    `res/3` rounded to the nearest tick, for every resolution below 2⁵⁰. -/
namespace Chartparse.Tie
open Chartparse Chartparse.Py Chartparse.Inst Chartparse.F64

theorem C04_table_code (thr : Int) (tick : Nat) (lanes : List Bool) (tap forced : Bool) (prev : Option (Nat × List Bool))
    (h : ¬ (forced = true ∧ prev = none)) :
    evalBody (hopoEnv thr tick lanes tap forced prev) Gen.Leaf.computeHopoState =
      .ok (.enum (hopoName (rule thr tick lanes tap forced prev))) := by
  rw [hopo_tie, Props.C04.C04_table thr tick lanes tap forced prev h]
  rfl

theorem C04_first_forced_code (thr : Int) (tick : Nat) (lanes : List Bool) (tap : Bool) :
    evalBody (hopoEnv thr tick lanes tap true none) Gen.Leaf.computeHopoState = .error .valueError := by
  rw [hopo_tie, Props.C04.C04_first_forced]
  rfl

/-- the threshold as the dumped `note_duration_to_ticks` computes it for `NoteDuration.EIGHTH_TRIPLET` (value 3): `res/3` rounded to the
    nearest tick, for every resolution below 2⁵⁰ (beyond that binary64 gives out: the listed known finding) -/
theorem C04_threshold_code (res : Nat) (hlt : res < 1125899906842624) :
    evalBody [("resolution", .int (res : Int)), ("note_duration.value", .int 3)] Gen.Leaf.noteDurationToTicks =
      .ok (.int (((2 * res + 3) / 6 : Nat) : Int)) := by
  rw [noteDur_tie (res : Int) 3 (by omega) (by norm_num)]
  have h := Props.C04.threshold_float res hlt
  simp only [Int.toNat_natCast] at *
  have h3 : (3 : Int).toNat = 3 := rfl
  rw [h3, h]

/-- **C05, half-open membership, about the dumped code**: chaining the four dumped bodies the way the code calls them — `tick.add` for
    the end tick, `end_tick`, `tick_is_after_event`, `tick_is_during_event` — the answer for a phrase `[tick, tick + len)` and a note tick
    `t` is `true` exactly when `tick ≤ t < tick + len` -/
theorem C05_during_code (p : Phrase) (t : Nat) :
    evalBody [("a", .int p.tick), ("b", .int p.len)] Gen.Leaf.tickAdd = .ok (.int ((p.tick + p.len : Nat) : Int)) ∧
    evalBody [("chartparse.tick.add(self.tick, self.sustain)", .int ((p.tick + p.len : Nat) : Int))] Gen.Leaf.specialEndTick =
      .ok (.int ((p.tick + p.len : Nat) : Int)) ∧
    evalBody [("tick", .int t), ("self.end_tick", .int ((p.tick + p.len : Nat) : Int))] Gen.Leaf.tickIsAfterEvent = .ok (.bool (p.after t)) ∧
    evalBody [("tick", .int t), ("self.tick", .int p.tick), ("self.tick_is_after_event(tick)", .bool (p.after t))] Gen.Leaf.tickIsDuringEvent =
      .ok (.bool (decide (p.tick ≤ t ∧ t < p.tick + p.len))) := by
  refine ⟨?_, endTick_tie _, after_tie p t, ?_⟩
  · rw [tickAdd_tie]; simp
  · rw [during_tie]
    congr 2
    unfold Phrase.during Phrase.after
    by_cases h1 : p.tick ≤ t <;> by_cases h2 : p.tick + p.len ≤ t <;> simp [h1, h2] <;> omega

end Chartparse.Tie
