import Chartparse.Gen.Imp
import Chartparse.Proofs.ImpRules
import Chartparse.Tie.LoopGlue
/-! `InstrumentTrack.last_note_end_timestamp` as written in /repo today — `None` for a track without notes, otherwise
    `max(self.note_events, key=lambda e: e.end_timestamp).end_timestamp` — is, for every list of events that carry an end time, the
    largest end time of the track (attained by one of its notes). -/
namespace Chartparse.Tie
open Chartparse Chartparse.PyImp

theorem find_key (ps : List (Val × Int)) (m : Val × Int) (hm : m ∈ ps) (hfun : ∀ p ∈ ps, ∀ q ∈ ps, p.1 = q.1 → p.2 = q.2) :
    ((ps.map fun p => ((p.1, Val.td p.2) : Val × Val)).find? (·.1 == m.1)).bind (fun p => numOf p.2) = some m.2 := by
  induction ps with
  | nil => cases hm
  | cons p rest ih =>
    simp only [List.map_cons, List.find?_cons]
    by_cases hp : (p.1 == m.1) = true
    · have : p.1 = m.1 := by simpa using hp
      have h2 := hfun p (List.mem_cons_self) m hm this
      simp [hp, numOf, h2]
    · have hp' : (p.1 == m.1) = false := by simpa using hp
      simp only [hp']
      have hm' : m ∈ rest := by
        rcases List.mem_cons.mp hm with h | h
        · subst h; simp at hp
        · exact h
      exact ih hm' (fun a ha b hb => hfun a (List.mem_cons_of_mem _ ha) b (List.mem_cons_of_mem _ hb))

theorem firstMax_cons2 (x k x' k' : Val) (rest : List (Val × Val)) :
    firstMax ((x, k) :: (x', k') :: rest) =
      match firstMax ((x', k') :: rest) with
      | some y =>
        if sameNumKind k k' then
          match numOf k, (((x', k') :: rest).find? (·.1 == y)).bind (fun p => numOf p.2) with
          | some a, some b => if b ≤ a then some x else some y
          | _, _ => none
        else none
      | none => none := by
  rw [firstMax.eq_def]
  dsimp only
  cases firstMax ((x', k') :: rest) <;> rfl

/-- `max(xs, key=…)` over timedelta keys: an element whose key is the largest -/
theorem firstMax_pairs : ∀ (ps : List (Val × Int)), ps ≠ [] → (∀ p ∈ ps, ∀ q ∈ ps, p.1 = q.1 → p.2 = q.2) →
    ∃ m ∈ ps, firstMax (ps.map fun p => ((p.1, Val.td p.2) : Val × Val)) = some m.1 ∧ ∀ q ∈ ps, q.2 ≤ m.2 := by
  intro ps
  induction ps with
  | nil => intro h; exact absurd rfl h
  | cons p rest ih =>
    intro _ hfun
    cases rest with
    | nil =>
      refine ⟨p, List.mem_cons_self, ?_, ?_⟩
      · simp [firstMax, numOf]
      · intro q hq; simp at hq; subst hq; exact Int.le_refl _
    | cons q r =>
      obtain ⟨m, hm, hfm, hmax⟩ := ih (by simp) (fun a ha b hb => hfun a (List.mem_cons_of_mem _ ha) b (List.mem_cons_of_mem _ hb))
      have hfk := find_key (q :: r) m hm (fun a ha b hb => hfun a (List.mem_cons_of_mem _ ha) b (List.mem_cons_of_mem _ hb))
      simp only [List.map_cons] at hfm hfk ⊢
      by_cases hle : m.2 ≤ p.2
      · refine ⟨p, List.mem_cons_self, ?_, ?_⟩
        · rw [firstMax_cons2, hfm]
          have hn : numOf (Val.td p.2) = some p.2 := rfl
          simp only [sameNumKind, if_true, hn, hfk, hle]
        · intro x hx
          rcases List.mem_cons.mp hx with h | h
          · subst h; exact Int.le_refl _
          · exact Int.le_trans (hmax x h) hle
      · refine ⟨m, List.mem_cons_of_mem _ hm, ?_, ?_⟩
        · rw [firstMax_cons2, hfm]
          have hn : numOf (Val.td p.2) = some p.2 := rfl
          simp only [sameNumKind, if_true, hn, hfk, hle, if_false]
        · intro x hx
          rcases List.mem_cons.mp hx with h | h
          · subst h; omega
          · exact hmax x h

theorem zip_map_self (f : Val → Val) : ∀ xs : List Val, xs.zip (xs.map f) = xs.map fun x => (x, f x)
  | [] => rfl
  | x :: xs => by simp [zip_map_self f xs]

theorem compM_keys (n : Val → Int) : ∀ (evs : List Val), (∀ e ∈ evs, attrVal e "end_timestamp" = .ok (.td (n e))) →
    compM (fun _ => .ok true) (fun x => attrVal x "end_timestamp") evs = .ok (evs.map fun x => .td (n x))
  | [], _ => rfl
  | x :: xs, h => by
    have hx := h x List.mem_cons_self
    have ih := compM_keys n xs (fun e he => h e (List.mem_cons_of_mem _ he))
    simp [compM, bind, Except.bind, hx, ih]

/-- **`last_note_end_timestamp`**: `None` without notes, else the largest end time, attained by a note of the track -/
theorem lastNoteEndTimestamp_tie (ext : Ext) (self : Val) (evs : List Val) (n : Val → Int)
    (hne : attrVal self "note_events" = .ok (.list (Val.ofList evs)))
    (hkey : ∀ e ∈ evs, attrVal e "end_timestamp" = .ok (.td (n e))) :
    (evs = [] → Returns ext Gen.Imp.lastNoteEndTimestamp (initEnv [("self", self)] Gen.Imp.lastNoteEndTimestampLocals) (.ok .none)) ∧
    (evs ≠ [] → ∃ y ∈ evs, Returns ext Gen.Imp.lastNoteEndTimestamp (initEnv [("self", self)] Gen.Imp.lastNoteEndTimestampLocals) (.ok (.td (n y)))
        ∧ ∀ x ∈ evs, n x ≤ n y) := by
  have h0 : initEnv [("self", self)] Gen.Imp.lastNoteEndTimestampLocals = [("self", some self)] := by
    simp [initEnv, Gen.Imp.lastNoteEndTimestampLocals]
  rw [h0]
  have hself : lookup [("self", some self)] "self" = .ok self := by simp [lookup]
  have hc : (evalExpr ext [("self", some self)] (.not (.attr (.var "self") "note_events")) >>= truth) = .ok (evs.isEmpty) := by
    simp [evalExpr, hself, hne, bind, Except.bind]
  unfold Gen.Imp.lastNoteEndTimestamp
  constructor
  · intro he
    subst he
    exact Or.inl (Runs.seq_stop (Runs.ite_true hc (Runs.ret rfl)) (by intro e; simp))
  · intro hnz
    obtain ⟨m, hm, hfm, hmax⟩ := firstMax_pairs (evs.map fun x => (x, n x)) (by simpa using hnz)
      (by
        intro p hp q hq hpq
        obtain ⟨a, _, rfl⟩ := List.mem_map.mp hp
        obtain ⟨b, _, rfl⟩ := List.mem_map.mp hq
        simp only at hpq
        simp [hpq])
    obtain ⟨y, hy, rfl⟩ := List.mem_map.mp hm
    refine ⟨y, hy, ?_, ?_⟩
    · have hcf : (evalExpr ext [("self", some self)] (.not (.attr (.var "self") "note_events")) >>= truth) = .ok false := by
        rw [hc]; cases evs with | nil => exact absurd rfl hnz | cons _ _ => rfl
      refine Returns.seq_norm (Runs.ite_false hcf (Runs.skip _ _)) (Returns.ret_of _ ?_)
      have hk := compM_keys n evs hkey
      have hz : evs.zip (evs.map fun x => Val.td (n x)) = (evs.map fun x => (x, n x)).map fun p => ((p.1, Val.td p.2) : Val × Val) := by
        rw [zip_map_self, List.map_map]; rfl
      have hfun : (fun x => evalExpr ext (setVar [("self", some self)] "e" x) (.attr (.var "e") "end_timestamp")) = fun x => attrVal x "end_timestamp" := by
        funext x; simp [evalExpr, lookup_setVar_self, bind, Except.bind]
      have hy' := hkey y hy
      have hmk : evalExpr ext [("self", some self)] (.maxKey "e" (.attr (.var "self") "note_events") (.attr (.var "e") "end_timestamp")) = .ok y := by
        rw [evalExpr, hfun]
        cases evs with
        | nil => exact absurd rfl hnz
        | cons a t =>
          simp only [evalExpr, hself, hne, bind, Except.bind, seqOf_list, hk, hz, hfm]
      rw [evalExpr, hmk]
      simp [bind, Except.bind, hy']
    · intro x hx
      have := hmax (x, n x) (List.mem_map.mpr ⟨x, hx, rfl⟩)
      simpa using this

end Chartparse.Tie
