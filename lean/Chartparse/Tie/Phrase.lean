import Chartparse.Tie.Common
import Chartparse.Model.Instrument
/-! The star-power predicates, as written in /repo today: `tick.add` is integer addition, a phrase's end tick is `add(tick, sustain)`,
    "after" is `tick ≥ end tick`, "during" is `start ≤ tick ∧ ¬ after` — composed, they are the hand model's `Phrase.after` and
    `Phrase.during` (half-open interval `[tick, tick + len)`). Each function's calls into the others enter as inputs whose values are
    what the other ties establish. -/
namespace Chartparse.Tie
open Chartparse Chartparse.Py Chartparse.Inst

theorem tickAdd_tie (a b : Int) :
    evalBody [("a", .int a), ("b", .int b)] Gen.Leaf.tickAdd = .ok (.int (a + b)) := by
  simp [Gen.Leaf.tickAdd, evalBody, evalExpr, Py.lookup, evalBin, bind, Except.bind]

theorem endTick_tie (e : Int) :
    evalBody [("chartparse.tick.add(self.tick, self.sustain)", .int e)] Gen.Leaf.specialEndTick = .ok (.int e) := by
  simp [Gen.Leaf.specialEndTick, evalBody, evalExpr, Py.lookup, bind, Except.bind]

/-- `tick_is_after_event` with `self.end_tick = p.tick + p.len` (by `tickAdd_tie` and `endTick_tie`) -/
theorem after_tie (p : Phrase) (t : Nat) :
    evalBody [("tick", .int t), ("self.end_tick", .int ((p.tick + p.len : Nat) : Int))] Gen.Leaf.tickIsAfterEvent = .ok (.bool (p.after t)) := by
  have h : ((((p.tick + p.len : Nat) : Int) : Rat) ≤ ((t : Int) : Rat)) ↔ p.tick + p.len ≤ t := by
    constructor
    · intro h; exact_mod_cast h
    · intro h; exact_mod_cast h
  by_cases hle : p.tick + p.len ≤ t
  · have := h.mpr hle
    simp [Gen.Leaf.tickIsAfterEvent, evalBody, evalExpr, Py.lookup, evalCmp, sameKind, numVal, bind, Except.bind, Phrase.after, hle]
    exact_mod_cast hle
  · have hn : ¬ ((((p.tick + p.len : Nat) : Int) : Rat) ≤ ((t : Int) : Rat)) := fun h' => hle (h.mp h')
    simp [Gen.Leaf.tickIsAfterEvent, evalBody, evalExpr, Py.lookup, evalCmp, sameKind, numVal, bind, Except.bind, Phrase.after, hle]
    have : t < p.tick + p.len := by omega
    exact_mod_cast this

/-- `tick_is_during_event` with `self.tick_is_after_event(tick) = p.after t` (by `after_tie`) -/
theorem during_tie (p : Phrase) (t : Nat) :
    evalBody [("tick", .int t), ("self.tick", .int p.tick), ("self.tick_is_after_event(tick)", .bool (p.after t))] Gen.Leaf.tickIsDuringEvent =
      .ok (.bool (p.during t)) := by
  by_cases hle : p.tick ≤ t <;> cases ha : p.after t <;>
    simp [Gen.Leaf.tickIsDuringEvent, evalBody, evalExpr, Py.lookup, evalCmp, sameKind, numVal, bind, Except.bind, Phrase.during, hle, ha]

end Chartparse.Tie
