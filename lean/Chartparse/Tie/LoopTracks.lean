import Chartparse.Gen.Imp
import Chartparse.Proofs.ImpRules
import Chartparse.Tie.LoopGlue
/-! The three section parsers `InstrumentTrack.from_chart_lines`, `SyncTrack.from_chart_lines`, `GlobalEventsTrack.from_chart_lines` as
    written in /repo today — each a dispatcher call, three builder calls and the constructor — proved, for all arguments and whatever the
    callees do, to be exactly these chains of calls: which datum list goes to which event class, that the tempo events are built first and
    *from the resolution*, that time signatures (and every other kind) are stamped *with those tempo events*, that anchors are built
    without a tempo map, that the star-power events handed to the note builder are the ones built from this section's `S` lines. -/
namespace Chartparse.Tie
open Chartparse Chartparse.PyImp

def cls (name : String) : Val := .obj ("type:" ++ name) .fnil
def PD : String := "._parse_data_from_chart_lines"
def BE : String := "chartparse.track.build_events_from_data"

/-- `InstrumentTrack.from_chart_lines` -/
def instrumentV (ext : Ext) (c inst diff lines bpm : Val) : M Val :=
  ext PD [c, lines] >>= fun r => unpack3 r >>= fun d =>          -- (note_data, star_power_data, track_data)
  ext BE [cls "StarPowerEvent", d.2.1, bpm] >>= fun sps =>
  ext BE [cls "TrackEvent", d.2.2, bpm] >>= fun tes =>
  ext "._build_note_events_from_data" [c, d.1, sps, bpm] >>= fun notes =>
  ext "()(instrument=,difficulty=,note_events=,star_power_events=,track_events=)" [c, inst, diff, notes, sps, tes]

theorem instrumentFromChartLines_tie (ext : Ext) (c inst diff lines bpm : Val) :
    Returns ext Gen.Imp.instrumentFromChartLines
      (initEnv [("cls", c), ("instrument", inst), ("difficulty", diff), ("lines", lines), ("bpm_events", bpm)] Gen.Imp.instrumentFromChartLinesLocals)
      (instrumentV ext c inst diff lines bpm) := by
  have h0 : initEnv [("cls", c), ("instrument", inst), ("difficulty", diff), ("lines", lines), ("bpm_events", bpm)] Gen.Imp.instrumentFromChartLinesLocals =
      [("cls", some c), ("instrument", some inst), ("difficulty", some diff), ("lines", some lines), ("bpm_events", some bpm),
       ("note_data", none), ("note_events", none), ("star_power_data", none), ("star_power_events", none), ("track_data", none), ("track_events", none)] := by
    simp [initEnv, Gen.Imp.instrumentFromChartLinesLocals]
  rw [h0]
  unfold Gen.Imp.instrumentFromChartLines instrumentV
  refine Returns.unpack3_bind _ ?_ ?_
  · ev_simp; rfl
  intro nd sd td
  refine Returns.assign_bind _ ?_ ?_
  · ev_simp; rfl
  intro sps _
  refine Returns.assign_bind _ ?_ ?_
  · ev_simp; rfl
  intro tes _
  refine Returns.assign_bind _ ?_ ?_
  · ev_simp
  intro notes _
  refine Returns.ret_of _ ?_
  ev_simp

/-- `SyncTrack.from_chart_lines` -/
def syncV (ext : Ext) (c res lines : Val) : M Val :=
  ext PD [c, lines] >>= fun r => unpack3 r >>= fun d =>          -- (time_signature_data, bpm_data, anchor_data)
  ext BE [cls "BPMEvent", d.2.1, res] >>= fun bpm =>
  ext BE [cls "TimeSignatureEvent", d.1, bpm] >>= fun tss =>
  ext BE [cls "AnchorEvent", d.2.2] >>= fun ans =>
  ext "()(time_signature_events=,bpm_events=,anchor_events=)" [c, tss, bpm, ans]

theorem syncFromChartLines_tie (ext : Ext) (c res lines : Val) :
    Returns ext Gen.Imp.syncFromChartLines
      (initEnv [("cls", c), ("resolution", res), ("lines", lines)] Gen.Imp.syncFromChartLinesLocals) (syncV ext c res lines) := by
  have h0 : initEnv [("cls", c), ("resolution", res), ("lines", lines)] Gen.Imp.syncFromChartLinesLocals =
      [("cls", some c), ("resolution", some res), ("lines", some lines), ("anchor_data", none), ("anchor_events", none), ("bpm_data", none),
       ("bpm_events", none), ("time_signature_data", none), ("time_signature_events", none)] := by
    simp [initEnv, Gen.Imp.syncFromChartLinesLocals]
  rw [h0]
  unfold Gen.Imp.syncFromChartLines syncV
  refine Returns.unpack3_bind _ ?_ ?_
  · ev_simp; rfl
  intro td bd ad
  refine Returns.assign_bind _ ?_ ?_
  · ev_simp; rfl
  intro bpm _
  refine Returns.assign_bind _ ?_ ?_
  · ev_simp; rfl
  intro tss _
  refine Returns.assign_bind _ ?_ ?_
  · ev_simp; rfl
  intro ans _
  refine Returns.ret_of _ ?_
  ev_simp

/-- `GlobalEventsTrack.from_chart_lines` -/
def globalEventsV (ext : Ext) (c lines bpm : Val) : M Val :=
  ext PD [c, lines] >>= fun r => unpack3 r >>= fun d =>          -- (text_data, section_data, lyric_data)
  ext BE [cls "TextEvent", d.1, bpm] >>= fun txs =>
  ext BE [cls "SectionEvent", d.2.1, bpm] >>= fun ses =>
  ext BE [cls "LyricEvent", d.2.2, bpm] >>= fun lys =>
  ext "()(text_events=,section_events=,lyric_events=)" [c, txs, ses, lys]

theorem globalEventsFromChartLines_tie (ext : Ext) (c lines bpm : Val) :
    Returns ext Gen.Imp.globalEventsFromChartLines
      (initEnv [("cls", c), ("lines", lines), ("bpm_events", bpm)] Gen.Imp.globalEventsFromChartLinesLocals) (globalEventsV ext c lines bpm) := by
  have h0 : initEnv [("cls", c), ("lines", lines), ("bpm_events", bpm)] Gen.Imp.globalEventsFromChartLinesLocals =
      [("cls", some c), ("lines", some lines), ("bpm_events", some bpm), ("lyric_data", none), ("lyric_events", none), ("section_data", none),
       ("section_events", none), ("text_data", none), ("text_events", none)] := by
    simp [initEnv, Gen.Imp.globalEventsFromChartLinesLocals]
  rw [h0]
  unfold Gen.Imp.globalEventsFromChartLines globalEventsV
  refine Returns.unpack3_bind _ ?_ ?_
  · ev_simp; rfl
  intro xd sd ld
  refine Returns.assign_bind _ ?_ ?_
  · ev_simp; rfl
  intro txs _
  refine Returns.assign_bind _ ?_ ?_
  · ev_simp; rfl
  intro ses _
  refine Returns.assign_bind _ ?_ ?_
  · ev_simp; rfl
  intro lys _
  refine Returns.ret_of _ ?_
  ev_simp

/-! ### the three `_parse_data_from_chart_lines`: the dispatcher is given these three types *in this order* (the order in which a line is
    offered to them), and the triple handed back is read out of its map under these three keys in this order -/

def PDL : String := "chartparse.track.parse_data_from_chart_lines"

def parseDataV3 (ext : Ext) (lines t1 t2 t3 r1 r2 r3 : Val) : M Val :=
  ext PDL [.tup (.cons t1 (.cons t2 (.cons t3 .nil))), lines] >>= fun pd =>
  ext ".__getitem__" [pd, r1] >>= fun a =>
  ext ".__getitem__" [pd, r2] >>= fun b =>
  ext ".__getitem__" [pd, r3] >>= fun c3 =>
  .ok (.tup (.cons a (.cons b (.cons c3 .nil))))

theorem instrumentParseData_tie (ext : Ext) (c lines : Val) :
    Returns ext Gen.Imp.instrumentParseData (initEnv [("cls", c), ("lines", lines)] Gen.Imp.instrumentParseDataLocals)
      (parseDataV3 ext lines (cls "NoteEvent.ParsedData") (cls "StarPowerEvent.ParsedData") (cls "TrackEvent.ParsedData")
        (cls "NoteEvent.ParsedData") (cls "StarPowerEvent.ParsedData") (cls "TrackEvent.ParsedData")) := by
  have h0 : initEnv [("cls", c), ("lines", lines)] Gen.Imp.instrumentParseDataLocals = [("cls", some c), ("lines", some lines), ("parsed_data", none)] := by
    simp [initEnv, Gen.Imp.instrumentParseDataLocals]
  rw [h0]
  unfold Gen.Imp.instrumentParseData parseDataV3
  simp only [cls, String.reduceAppend]
  refine Returns.assign_bind _ ?_ ?_
  · ev_simp; rfl
  intro pd _
  refine Returns.ret_of _ ?_
  ev_simp
  generalize ext ".__getitem__" [pd, Val.obj "type:NoteEvent.ParsedData" Val.fnil] = r1
  generalize ext ".__getitem__" [pd, Val.obj "type:StarPowerEvent.ParsedData" Val.fnil] = r2
  generalize ext ".__getitem__" [pd, Val.obj "type:TrackEvent.ParsedData" Val.fnil] = r3
  cases r1 <;> cases r2 <;> cases r3 <;> simp [bind, Except.bind]

theorem syncParseData_tie (ext : Ext) (c lines : Val) :
    Returns ext Gen.Imp.syncParseData (initEnv [("cls", c), ("lines", lines)] Gen.Imp.syncParseDataLocals)
      (parseDataV3 ext lines (cls "BPMEvent.ParsedData") (cls "TimeSignatureEvent.ParsedData") (cls "AnchorEvent.ParsedData")
        (cls "TimeSignatureEvent.ParsedData") (cls "BPMEvent.ParsedData") (cls "AnchorEvent.ParsedData")) := by
  have h0 : initEnv [("cls", c), ("lines", lines)] Gen.Imp.syncParseDataLocals = [("cls", some c), ("lines", some lines), ("parsed_data", none)] := by
    simp [initEnv, Gen.Imp.syncParseDataLocals]
  rw [h0]
  unfold Gen.Imp.syncParseData parseDataV3
  simp only [cls, String.reduceAppend]
  refine Returns.assign_bind _ ?_ ?_
  · ev_simp; rfl
  intro pd _
  refine Returns.ret_of _ ?_
  ev_simp
  generalize ext ".__getitem__" [pd, Val.obj "type:TimeSignatureEvent.ParsedData" Val.fnil] = r1
  generalize ext ".__getitem__" [pd, Val.obj "type:BPMEvent.ParsedData" Val.fnil] = r2
  generalize ext ".__getitem__" [pd, Val.obj "type:AnchorEvent.ParsedData" Val.fnil] = r3
  cases r1 <;> cases r2 <;> cases r3 <;> simp [bind, Except.bind]

theorem globalEventsParseData_tie (ext : Ext) (c lines : Val) :
    Returns ext Gen.Imp.globalEventsParseData (initEnv [("cls", c), ("lines", lines)] Gen.Imp.globalEventsParseDataLocals)
      (parseDataV3 ext lines (cls "LyricEvent.ParsedData") (cls "SectionEvent.ParsedData") (cls "TextEvent.ParsedData")
        (cls "TextEvent.ParsedData") (cls "SectionEvent.ParsedData") (cls "LyricEvent.ParsedData")) := by
  have h0 : initEnv [("cls", c), ("lines", lines)] Gen.Imp.globalEventsParseDataLocals = [("cls", some c), ("lines", some lines), ("parsed_data", none)] := by
    simp [initEnv, Gen.Imp.globalEventsParseDataLocals]
  rw [h0]
  unfold Gen.Imp.globalEventsParseData parseDataV3
  simp only [cls, String.reduceAppend]
  refine Returns.assign_bind _ ?_ ?_
  · ev_simp; rfl
  intro pd _
  refine Returns.ret_of _ ?_
  ev_simp
  generalize ext ".__getitem__" [pd, Val.obj "type:TextEvent.ParsedData" Val.fnil] = r1
  generalize ext ".__getitem__" [pd, Val.obj "type:SectionEvent.ParsedData" Val.fnil] = r2
  generalize ext ".__getitem__" [pd, Val.obj "type:LyricEvent.ParsedData" Val.fnil] = r3
  cases r1 <;> cases r2 <;> cases r3 <;> simp [bind, Except.bind]

/-! ### `build_events_from_data`: which builder an event class is sent to -/

def NEEDING : Val := .obj "type:<locals>.BPMNeedingEvent" .fnil

/-- the dispatch of `build_events_from_data`: anchors are built from their data alone, tempo events from data and the *third argument as
    resolution*, every other kind by `data_to_events` with the event class and the *third argument as tempo events*; the tests are made in
    this order (an anchor class is never asked whether it is a tempo class) -/
def buildV (ext : Ext) (et datas third : Val) : M Val :=
  (ext "issubclass" [et, cls "AnchorEvent"] >>= truth) >>= fun a => if a then ext "data_to_anchor_events" [datas] else
  (ext "issubclass" [et, cls "BPMEvent"] >>= truth) >>= fun b => if b then ext "data_to_bpm_events" [datas, third] else
  (ext "issubclass" [et, NEEDING] >>= truth) >>= fun c3 => if c3 then ext "data_to_events" [et, datas, third] else
  .error (.internal "UnreachableError")

theorem buildEventsFromData_tie (ext : Ext) (et datas third : Val) :
    Returns ext Gen.Imp.buildEventsFromData
      (initEnv [("event_type", et), ("datas", datas), ("resolution_or_bpm_events_or_None", third)] Gen.Imp.buildEventsFromDataLocals)
      (buildV ext et datas third) := by
  have h0 : initEnv [("event_type", et), ("datas", datas), ("resolution_or_bpm_events_or_None", third)] Gen.Imp.buildEventsFromDataLocals =
      [("event_type", some et), ("datas", some datas), ("resolution_or_bpm_events_or_None", some third), ("AnchorEvent", none), ("BPMEvent", none),
       ("StarPowerEvent", none), ("TimeSignatureEvent", none), ("TrackEvent", none), ("bpm_events", none), ("resolution", none)] := by
    simp [initEnv, Gen.Imp.buildEventsFromDataLocals]
  rw [h0]
  unfold Gen.Imp.buildEventsFromData buildV
  simp only [cls, NEEDING, String.reduceAppend]
  refine Returns.seq_norm (Runs.assign (by rw [evalExpr])) ?_
  refine Returns.seq_norm (Runs.assign (by rw [evalExpr])) ?_
  refine Returns.seq_norm (Runs.assign (by rw [evalExpr])) ?_
  refine Returns.seq_norm (Runs.assign (by rw [evalExpr])) ?_
  refine Returns.seq_norm (Runs.assign (by rw [evalExpr])) ?_
  refine Returns.ite _ ?_ ?_ ?_
  · ev_simp
  · intro _
    refine Returns.seq_norm (Runs.assign (v := datas) (by ev_simp)) ?_
    refine Returns.ret_of _ ?_
    ev_simp
  · intro _
    refine Returns.ite _ ?_ ?_ ?_
    · ev_simp
    · intro _
      refine Returns.seq_norm (Runs.assign (v := datas) (by ev_simp)) ?_
      refine Returns.seq_norm (Runs.assign (v := third) (by ev_simp)) ?_
      refine Returns.ret_of _ ?_
      ev_simp
    · intro _
      refine Returns.ite _ ?_ ?_ ?_
      · ev_simp
      · intro _
        refine Returns.seq_norm (Runs.assign (v := datas) (by ev_simp)) ?_
        refine Returns.seq_norm (Runs.assign (v := third) (by ev_simp)) ?_
        refine Returns.ret_of _ ?_
        ev_simp
      · intro _
        exact Returns.raise _ _ _

end Chartparse.Tie
