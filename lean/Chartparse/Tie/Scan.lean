import Chartparse.Tie.Common
import Chartparse.Model.Tempo
/-! `BPMEvents._index_of_proximal_event`, as written in /repo today — the start check, the "tick precedes" check, the forward scan over
    `range(start, last)` and the fall-through to the last index — *is* the hand model's `indexOfProximal`, for every list of tempo
    ticks, every tick and every non-negative hint. -/
namespace Chartparse.Tie
open Chartparse Chartparse.Py Chartparse.Tempo

def L (ticks : List Nat) : List Int := ticks.map Int.ofNat

theorem L_length (ticks : List Nat) : (L ticks).length = ticks.length := by unfold L; simp

theorem L_get (ticks : List Nat) (i : Nat) (hi : i < ticks.length) : (L ticks)[i]? = some ((ticks[i] : Nat) : Int) := by
  unfold L
  rw [List.getElem?_map, List.getElem?_eq_getElem hi]; rfl

/-! ### evaluation rules (one per construct the function uses) -/

theorem eval_var (env : Env) (x : String) (v : Val) (h : Py.lookup env x = .ok v) : evalExpr env (.var x) = .ok v := by
  simp [evalExpr, h]

theorem eval_int (env : Env) (n : Int) : evalExpr env (.int n) = .ok (.int n) := rfl

theorem eval_len (env : Env) (a : Expr) (l : List Int) (h : evalExpr env a = .ok (.ints l)) :
    evalExpr env (.len a) = .ok (.int l.length) := by
  simp [evalExpr, h, bind, Except.bind]

theorem eval_sub (env : Env) (a b : Expr) (x y : Int) (ha : evalExpr env a = .ok (.int x)) (hb : evalExpr env b = .ok (.int y)) :
    evalExpr env (.bin .sub a b) = .ok (.int (x - y)) := by
  simp [evalExpr, ha, hb, bind, Except.bind, evalBin]

theorem eval_add (env : Env) (a b : Expr) (x y : Int) (ha : evalExpr env a = .ok (.int x)) (hb : evalExpr env b = .ok (.int y)) :
    evalExpr env (.bin .add a b) = .ok (.int (x + y)) := by
  simp [evalExpr, ha, hb, bind, Except.bind, evalBin]

theorem eval_gt (env : Env) (a b : Expr) (x y : Int) (ha : evalExpr env a = .ok (.int x)) (hb : evalExpr env b = .ok (.int y)) :
    evalExpr env (.cmp .gt a b) = .ok (.bool (decide (y < x))) := by
  simp [evalExpr, ha, hb, bind, Except.bind, evalCmp, sameKind, numVal]

theorem eval_idx (env : Env) (a i : Expr) (l : List Int) (k : Nat) (x : Int) (ha : evalExpr env a = .ok (.ints l))
    (hi : evalExpr env i = .ok (.int (k : Int))) (hx : l[k]? = some x) : evalExpr env (.idx a i) = .ok (.int x) := by
  have hnn : ¬ ((k : Int) < 0) := by omega
  simp [evalExpr, ha, hi, bind, Except.bind, hnn, hx]

/-! ### the loop -/

/-- what the loop needs to find in its environment -/
def Inv (ticks : List Nat) (tick : Int) (env : Env) : Prop :=
  Py.lookup env "tick" = .ok (.int tick) ∧ Py.lookup env "self[].tick" = .ok (.ints (L ticks)) ∧
  Py.lookup env "index_of_last_event" = .ok (.int ((ticks.length : Int) - 1))

theorem lookup_cons_ne (env : Env) (x y : String) (v : Val) (h : (y == x) = false) :
    Py.lookup ((y, v) :: env) x = Py.lookup env x := by
  simp [Py.lookup, List.find?, h]

theorem lookup_cons_eq (env : Env) (x : String) (v : Val) : Py.lookup ((x, v) :: env) x = .ok v := by
  simp [Py.lookup, List.find?]

theorem Inv_cons (ticks : List Nat) (tick : Int) (env : Env) (k : Int) (h : Inv ticks tick env) :
    Inv ticks tick (("index", .int k) :: env) := by
  obtain ⟨h1, h2, h3⟩ := h
  exact ⟨by rw [lookup_cons_ne _ _ _ _ (by decide)]; exact h1, by rw [lookup_cons_ne _ _ _ _ (by decide)]; exact h2,
    by rw [lookup_cons_ne _ _ _ _ (by decide)]; exact h3⟩

def condE : Expr := .cmp .gt (.idx (.var "self[].tick") (.bin .add (.var "index") (.int 1))) (.var "tick")

theorem cond_eval (ticks : List Nat) (tick : Int) (env : Env) (k : Nat) (hk : k + 1 < ticks.length) (h : Inv ticks tick env) :
    evalExpr (("index", .int (k : Int)) :: env) condE = .ok (.bool (decide (tick < ((ticks[k + 1] : Nat) : Int)))) := by
  obtain ⟨h1, h2, _⟩ := Inv_cons ticks tick env k h
  unfold condE
  apply eval_gt
  · apply eval_idx _ _ _ (L ticks) (k + 1)
    · exact eval_var _ _ _ h2
    · have := eval_add (("index", .int (k : Int)) :: env) (.var "index") (.int 1) k 1 (eval_var _ _ _ (lookup_cons_eq _ _ _)) (eval_int _ _)
      simpa using this
    · exact L_get ticks (k + 1) hk
  · exact eval_var _ _ _ h1

theorem loop_spec (ticks : List Nat) (tick : Int) :
    ∀ (n k : Nat) (env : Env), Inv ticks tick env → k + n + 1 = ticks.length →
      (forLoop (fun e => evalExpr e condE) (fun e => evalExpr e (.var "index")) "index" env (k : Int) n >>= fun res =>
        match res.1 with
        | some x => (.ok x : M Val)
        | none => evalBody res.2 [.ret (.var "index_of_last_event")]) = .ok (.int ((scan tick (ticks.drop (k + 1)) k : Nat) : Int)) := by
  intro n
  induction n with
  | zero =>
    intro k env h hlen
    have hd : ticks.drop (k + 1) = [] := by apply List.drop_eq_nil_of_le; omega
    rw [hd]
    simp only [forLoop, bind, Except.bind, evalBody, scan]
    rw [eval_var _ _ _ h.2.2]
    congr 2; omega
  | succ n ih =>
    intro k env h hlen
    have hk : k + 1 < ticks.length := by omega
    have hd : ticks.drop (k + 1) = ticks[k + 1] :: ticks.drop (k + 2) := by
      rw [List.drop_eq_getElem_cons hk]
    rw [hd]
    simp only [forLoop, bind, Except.bind]
    rw [cond_eval ticks tick env k hk h]
    by_cases hgt : tick < ((ticks[k + 1] : Nat) : Int)
    · have hgt' : ((ticks[k + 1] : Nat) : Int) > tick := hgt
      simp only [hgt, decide_true, scan, hgt', if_true]
      rw [eval_var _ _ _ (lookup_cons_eq _ _ _)]
    · have hgt' : ¬ (((ticks[k + 1] : Nat) : Int) > tick) := hgt
      simp only [hgt, decide_false, scan, hgt', if_false]
      have := ih (k + 1) (("index", .int (k : Int)) :: env) (Inv_cons ticks tick env k h) (by omega)
      simp only [bind, Except.bind] at this
      have e : ((k : Int) + 1) = ((k + 1 : Nat) : Int) := by push_cast; ring
      rw [e]
      exact this

/-! ### the whole function -/

def env0 (ticks : List Nat) (tick : Int) (start : Nat) : Env :=
  [("tick", .int tick), ("start_iteration_index", .int (start : Int)), ("self[].tick", .ints (L ticks))]
def env1 (ticks : List Nat) (tick : Int) (start : Nat) : Env :=
  ("index_of_last_event", .int ((ticks.length : Int) - 1)) :: env0 ticks tick start

theorem scan_tie (ticks : List Nat) (tick : Int) (start : Nat) :
    evalBody [("tick", .int tick), ("start_iteration_index", .int (start : Int)), ("self[].tick", .ints (L ticks))] Gen.Leaf.indexOfProximalEvent =
      (indexOfProximal ticks tick start).map (fun n => Val.int (n : Int)) := by
  have hinv : Inv ticks tick (env1 ticks tick start) :=
    ⟨by simp [env1, env0, Py.lookup, List.find?], by simp [env1, env0, Py.lookup, List.find?], by simp [env1, Py.lookup, List.find?]⟩
  have hstart : Py.lookup (env1 ticks tick start) "start_iteration_index" = .ok (.int (start : Int)) := by
    simp [env1, env0, Py.lookup, List.find?]
  -- statement 1: the assignment
  have h1 : evalExpr (env0 ticks tick start) (.bin .sub (.len (.var "self[].tick")) (.int 1)) = .ok (.int ((ticks.length : Int) - 1)) := by
    have := eval_sub (env0 ticks tick start) (.len (.var "self[].tick")) (.int 1) (L ticks).length 1
      (eval_len _ _ _ (eval_var _ _ _ (by simp [env0, Py.lookup, List.find?]))) (eval_int _ _)
    rw [L_length] at this; exact this
  -- statement 2: the start check
  have h2 : evalExpr (env1 ticks tick start) (.cmp .gt (.var "start_iteration_index") (.var "index_of_last_event")) =
      .ok (.bool (decide ((ticks.length : Int) - 1 < (start : Int)))) :=
    eval_gt _ _ _ _ _ (eval_var _ _ _ hstart) (eval_var _ _ _ hinv.2.2)
  have hs1 := eval_var _ _ _ hstart
  have hs2 := eval_var _ _ _ hinv.2.2
  unfold indexOfProximal
  change evalBody (env0 ticks tick start) Gen.Leaf.indexOfProximalEvent = _
  simp only [Gen.Leaf.indexOfProximalEvent, evalBody, bind, Except.bind]
  rw [h1]
  simp only []
  simp only [env1] at h2 hs1 hs2
  rw [h2]
  by_cases hlen : ticks.length ≤ start
  · have : (ticks.length : Int) - 1 < (start : Int) := by omega
    simp only [this, decide_true, if_pos hlen]; rfl
  · have hs : start < ticks.length := by omega
    have : ¬ ((ticks.length : Int) - 1 < (start : Int)) := by omega
    simp only [this, decide_false, if_neg hlen, List.getElem?_eq_getElem hs]
    -- statement 3: the "tick precedes" check
    have h3 : evalExpr (env1 ticks tick start) (.cmp .gt (.idx (.var "self[].tick") (.var "start_iteration_index")) (.var "tick")) =
        .ok (.bool (decide (tick < ((ticks[start] : Nat) : Int)))) :=
      eval_gt _ _ _ _ _ (eval_idx _ _ _ (L ticks) start _ (eval_var _ _ _ hinv.2.1) (eval_var _ _ _ hstart) (L_get ticks start hs))
        (eval_var _ _ _ hinv.1)
    simp only [env1] at h3
    rw [h3]
    by_cases hfirst : tick < ((ticks[start] : Nat) : Int)
    · have hf' : ((ticks[start] : Nat) : Int) > tick := hfirst
      simp only [hfirst, decide_true, hf', if_true]; rfl
    · have hf' : ¬ (((ticks[start] : Nat) : Int) > tick) := hfirst
      simp only [hfirst, decide_false, hf', if_false]
      -- statements 4 and 5: the loop, then the fall-through
      have hloop := loop_spec ticks tick (ticks.length - 1 - start) start (env1 ticks tick start) hinv (by omega)
      have hn : ((ticks.length : Int) - 1 - (start : Int)).toNat = ticks.length - 1 - start := by omega
      rw [hs1, hs2]
      simp only [hn]
      simp only [bind, Except.bind, condE, env1, evalBody] at hloop
      simp only [Except.map]
      exact hloop

end Chartparse.Tie
