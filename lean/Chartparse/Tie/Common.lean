import Chartparse.Gen.Leaf
import Chartparse.Proofs.F64Proofs
/-! Shared facts for the leaf ties. -/
namespace Chartparse.Tie
open Chartparse Chartparse.Py Chartparse.F64

theorem fl_one : fl 1 = 1 := by decide +kernel
theorem fl_sixty : fl 60 = 60 := by decide +kernel
theorem fl_thousand : fl 1000 = 1000 := by decide +kernel

theorem fl_pos (x : Rat) (hx : 0 < x) : 0 < fl x := by
  have h := fl_rel_err x hx
  have hp : pow2 (-53) < 1 := by
    unfold pow2; norm_num
  have : x - fl x ≤ x * pow2 (-53) := by
    have := abs_le.mp h; linarith [this.1]
  nlinarith

theorem fls_of_nonneg (x : Rat) (hx : 0 ≤ x) : fls x = fl x := by
  unfold fls; rw [if_neg (not_lt.mpr hx)]

theorem fl_zero : fl 0 = 0 := by unfold fl; simp

theorem fls_neg (x : Rat) (hx : x < 0) : fls x < 0 := by
  unfold fls; rw [if_pos hx]
  have := fl_pos (-x) (by linarith)
  linarith

theorem natCast_toNat (n : Int) (h : 0 ≤ n) : ((n.toNat : Nat) : Rat) = (n : Rat) := by
  have : ((n.toNat : Nat) : Int) = n := Int.toNat_of_nonneg h
  exact_mod_cast congrArg (fun z : Int => (z : Rat)) this

end Chartparse.Tie
