import Chartparse.Gen.Imp
import Chartparse.Proofs.ImpRules
/-! `NoteEvent.from_parsed_data` as written in /repo today — the glue of the instrument track: tick of the first datum, lanes, sustain,
    the two flags, the *hinted* start query, the HOPO decision, the star-power cursor, the longest sustain and end tick, the end query
    *started at the index the start query returned*, the constructor, and the two cursors handed back — proved, for all inputs and
    whatever the callees do, to be exactly this chain of calls with these arguments in this order (`glueV`). The hint threading of
    C11 / C03 (`end_timestamp` is asked with the start's index as hint; the returned cursor is the start's index) is read off it. -/
namespace Chartparse.Tie
open Chartparse Chartparse.PyImp

def TAP : Val := .obj "NoteTrackIndex" (.field "name" (.str [84, 65, 80]) (.field "value" (.int 6) .fnil))
def FORCED : Val := .obj "NoteTrackIndex" (.field "name" (.str [70, 79, 82, 67, 69, 68]) (.field "value" (.int 5) .fnil))
def TS : String := ".timestamp_at_tick(start_iteration_index=)"
def SPD : String := "NoteEvent._compute_star_power_data(proximal_star_power_event_index=)"
def CTOR : String := "()(tick=,timestamp=,end_timestamp=,note=,hopo_state=,sustain=,star_power_data=,_proximal_bpm_event_index=)"

/-- `any(d.note_track_index == member for d in datas)` -/
def anyIdx (ds : List Val) (member : Val) : M Val :=
  anyM (fun x => attrVal x "note_track_index" >>= fun v => .ok (v == member)) ds >>= fun b => .ok (.bool b)

/-- the chain of calls `NoteEvent.from_parsed_data` makes -/
def glueV (ext : Ext) (c : Val) (ds : List Val) (prev sps bpm pbi spi : Val) : M Val :=
  (indexVal (.list (Val.ofList ds)) (.int 0) >>= fun d0 => attrVal d0 "tick") >>= fun tick =>
  ext "Note.from_parsed_datas" [.list (Val.ofList ds)] >>= fun note =>
  ext "complex_sustain_from_parsed_datas" [.list (Val.ofList ds)] >>= fun sustain =>
  anyIdx ds TAP >>= fun isTap =>
  anyIdx ds FORCED >>= fun isForced =>
  ext TS [bpm, tick, pbi] >>= fun r1 => unpack2 r1 >>= fun p1 =>
  (attrVal bpm "resolution" >>= fun res => ext "NoteEvent._compute_hopo_state" [res, tick, note, isTap, isForced, prev]) >>= fun hopo =>
  ext SPD [tick, sps, spi] >>= fun r2 => unpack2 r2 >>= fun p2 =>
  ext "._longest_sustain" [c, sustain] >>= fun lg =>
  ext "._end_tick" [c, tick, lg] >>= fun et =>
  ext TS [bpm, et, p1.2] >>= fun r3 => unpack2 r3 >>= fun p3 =>
  ext CTOR [c, tick, p1.1, p3.1, note, hopo, sustain, p2.1, p1.2] >>= fun ev =>
  .ok (.tup (.cons ev (.cons p1.2 (.cons p2.2 .nil))))

theorem anyGen_idx (ext : Ext) (env : Env) (ds : List Val) (member : Val) (hd : evalExpr ext env (.var "datas") = .ok (.list (Val.ofList ds))) :
    evalExpr ext env (.anyGen "d" (.var "datas") (.lit (.bool true)) (.cmp .eq (.attr (.var "d") "note_track_index") (.lit member))) = anyIdx ds member := by
  have hf : (fun x => evalExpr ext (setVar env "d" x) (.lit (.bool true)) >>= truth >>= fun b =>
      if b then evalExpr ext (setVar env "d" x) (.cmp .eq (.attr (.var "d") "note_track_index") (.lit member)) >>= truth else .ok false)
      = fun x => attrVal x "note_track_index" >>= fun v => .ok (v == member) := by
    funext x
    simp only [evalExpr, lookup_setVar_self, bind, Except.bind, truth_bool, if_true]
    cases attrVal x "note_track_index" <;> simp
  have hgoal : evalExpr ext env (.anyGen "d" (.var "datas") (.lit (.bool true)) (.cmp .eq (.attr (.var "d") "note_track_index") (.lit member))) =
      (anyM (fun x => evalExpr ext (setVar env "d" x) (.lit (.bool true)) >>= truth >>= fun b =>
        if b then evalExpr ext (setVar env "d" x) (.cmp .eq (.attr (.var "d") "note_track_index") (.lit member)) >>= truth else .ok false) ds
        >>= fun b => .ok (.bool b)) := by
    rw [evalExpr, hd]
    simp [bind, Except.bind]
  rw [hgoal, hf]
  rfl

/-- evaluate an expression in an environment built by assignments: look-ups go through the assignments first -/
macro "ev_simp" : tactic =>
  `(tactic| ((try simp (disch := decide) only [evalExpr, lookup_setVar_self, lookup_setVar_ne])
             <;> (try simp [lookup, bind, Except.bind, Val.toList?, TS, SPD, CTOR])))

/-- **`NoteEvent.from_parsed_data` is this chain of calls** -/
theorem noteFromParsedData_tie (ext : Ext) (c : Val) (ds : List Val) (prev sps bpm pbi spi : Val) :
    Returns ext Gen.Imp.noteFromParsedData
      (initEnv [("cls", c), ("datas", .list (Val.ofList ds)), ("prev_event", prev), ("star_power_events", sps), ("bpm_events", bpm),
                ("proximal_bpm_event_index", pbi), ("star_power_event_index", spi)] Gen.Imp.noteFromParsedDataLocals)
      (glueV ext c ds prev sps bpm pbi spi) := by
  have h0 : initEnv [("cls", c), ("datas", .list (Val.ofList ds)), ("prev_event", prev), ("star_power_events", sps), ("bpm_events", bpm),
                ("proximal_bpm_event_index", pbi), ("star_power_event_index", spi)] Gen.Imp.noteFromParsedDataLocals =
      [("cls", some c), ("datas", some (.list (Val.ofList ds))), ("prev_event", some prev), ("star_power_events", some sps), ("bpm_events", some bpm),
       ("proximal_bpm_event_index", some pbi), ("star_power_event_index", some spi), ("_", none), ("end_tick", none), ("end_timestamp", none),
       ("event", none), ("hopo_state", none), ("is_forced", none), ("is_tap", none), ("longest_sustain", none), ("note", none),
       ("star_power_data", none), ("sustain", none), ("tick", none), ("timestamp", none)] := by
    simp [initEnv, Gen.Imp.noteFromParsedDataLocals]
  rw [h0]
  unfold Gen.Imp.noteFromParsedData glueV
  -- tick = datas[0].tick
  refine Returns.assign_bind _ ?_ ?_
  · ev_simp
  intro tick _
  -- note = Note.from_parsed_datas(datas)
  refine Returns.assign_bind _ ?_ ?_
  · ev_simp
  intro note _
  -- sustain = complex_sustain_from_parsed_datas(datas)
  refine Returns.assign_bind _ ?_ ?_
  · ev_simp
  intro sustain _
  -- is_tap, is_forced
  refine Returns.assign_bind _ (anyGen_idx ext _ ds TAP ?_) ?_
  · ev_simp
  intro isTap _
  refine Returns.assign_bind _ (anyGen_idx ext _ ds FORCED ?_) ?_
  · ev_simp
  intro isForced _
  -- timestamp, proximal_bpm_event_index = bpm_events.timestamp_at_tick(tick, start_iteration_index=proximal_bpm_event_index)
  refine Returns.unpack2_bind _ ?_ ?_
  · ev_simp
  intro ts pbi'
  -- hopo_state
  refine Returns.assign_bind _ ?_ ?_
  · ev_simp
    cases attrVal bpm "resolution" <;> simp [Val.toList?]
  intro hopo _
  -- star_power_data, star_power_event_index
  refine Returns.unpack2_bind _ ?_ ?_
  · ev_simp
  intro spd spi'
  -- longest_sustain, end_tick
  refine Returns.assign_bind _ ?_ ?_
  · ev_simp
  intro lg _
  refine Returns.assign_bind _ ?_ ?_
  · ev_simp
  intro et _
  -- end_timestamp, _ = bpm_events.timestamp_at_tick(end_tick, start_iteration_index=proximal_bpm_event_index)
  refine Returns.unpack2_bind _ ?_ ?_
  · ev_simp
  intro ets under
  -- event = cls(...)
  refine Returns.assign_bind _ ?_ ?_
  · ev_simp
  intro ev _
  refine Returns.ret_of _ ?_
  ev_simp

end Chartparse.Tie
