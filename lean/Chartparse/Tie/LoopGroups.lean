import Chartparse.Gen.Imp
import Chartparse.Proofs.ImpRules
import Chartparse.Tie.LoopEvents
/-! `InstrumentTrack._build_note_events_from_data` as written in /repo today — the outer `while` over the data, the inner `while`
    that extends a block as long as the next datum has the same tick, the slice handed to `NoteEvent.from_parsed_data` together with
    the previous event and the two cursors, the cursors taken over from its result — is the fold of that call over the maximal
    runs of adjacent equal-tick data, for every list of data and whatever `NoteEvent.from_parsed_data` does. -/
namespace Chartparse.Tie
open Chartparse Chartparse.PyImp

/-- maximal runs of adjacent data with equal keys (the hand model's `Inst.groups`, over any key) -/
def groupsV (key : Val → Val) : List Val → List (List Val)
  | [] => []
  | d :: ds =>
    match groupsV key ds with
    | (e :: g) :: gs => if key e = key d then (d :: e :: g) :: gs else [d] :: (e :: g) :: gs
    | _ => [[d]]

/-- how many of the data after `d` continue its run -/
def runLen (key : Val → Val) : Val → List Val → Nat
  | _, [] => 0
  | d, e :: es => if key e = key d then 1 + runLen key e es else 0

theorem runLen_le (key : Val → Val) : ∀ (rest : List Val) (d : Val), runLen key d rest ≤ rest.length := by
  intro rest
  induction rest with
  | nil => intro d; simp [runLen]
  | cons e es ih =>
    intro d
    simp only [runLen]
    split
    · have := ih e; simp only [List.length_cons]; omega
    · omega

theorem groupsV_ne_nil (key : Val → Val) (d : Val) (ds : List Val) : groupsV key (d :: ds) ≠ [] := by
  simp only [groupsV]
  split <;> (try split) <;> simp

theorem groupsV_head_ne (key : Val → Val) : ∀ (ds : List Val), ∀ g ∈ groupsV key ds, g ≠ [] := by
  intro ds
  induction ds with
  | nil => intro g hg; simp [groupsV] at hg
  | cons d ds ih =>
    intro g hg
    simp only [groupsV] at hg
    split at hg
    · rename_i e g' gs heq
      split at hg
      · simp only [List.mem_cons] at hg
        rcases hg with rfl | hg
        · simp
        · exact ih g (by rw [heq]; simp [hg])
      · simp only [List.mem_cons] at hg
        rcases hg with rfl | rfl | hg
        · simp
        · simp
        · exact ih g (by rw [heq]; simp [hg])
    · simp only [List.mem_cons, List.mem_nil_iff, or_false] at hg
      subst hg; simp

/-- the runs, read off from the front: the first run is `d` and the next `runLen` data -/
theorem groupsV_cons (key : Val → Val) : ∀ (rest : List Val) (d : Val),
    groupsV key (d :: rest) = (d :: rest.take (runLen key d rest)) :: groupsV key (rest.drop (runLen key d rest)) := by
  intro rest
  induction rest with
  | nil => intro d; simp [groupsV, runLen]
  | cons e es ih =>
    intro d
    have h := ih e
    simp only [groupsV] at h ⊢
    rw [h]
    simp only [runLen]
    by_cases hk : key e = key d
    · have h1 : 1 + runLen key e es = runLen key e es + 1 := by omega
      simp [hk, h1]
    · simp only [hk, if_false, List.take_zero, List.drop_zero]
      rw [groupsV]
      rw [h]

/-! ### the code -/

def FN : String := "NoteEvent.from_parsed_data(proximal_bpm_event_index=,star_power_event_index=)"

def gEnv (c D S B : Val) (ev : Option Val) (acc : List Val) (i : Nat) (left : Option Val) (n : Nat) (prev : Option Val) (pb : Val)
    (right : Option Val) (sp : Val) : Env :=
  [("cls", some c), ("datas", some D), ("star_power_events", some S), ("bpm_events", some B), ("event", ev),
   ("events", some (.list (Val.ofList acc))), ("i", some (.int i)), ("left", left), ("num_datas", some (.int n)),
   ("previous_event", prev), ("proximal_bpm_event_index", some pb), ("right", right), ("star_power_event_index", some sp)]

def innerCond : Expr :=
  (.and (.cmp .lt (.bin .add (.var "i") (.lit (.int 1))) (.var "num_datas"))
    (.cmp .eq (.attr (.index (.var "datas") (.bin .add (.var "i") (.lit (.int 1)))) "tick") (.attr (.index (.var "datas") (.var "i")) "tick")))

def innerBody : Stmt := (.assign "i" (.bin .add (.var "i") (.lit (.int 1))))

theorem getElem_of_drop {l : List Val} {i : Nat} {d : Val} {rest : List Val} (h : l.drop i = d :: rest) :
    ∃ hi : i < l.length, l[i] = d := by
  have hi : i < l.length := by
    have := congrArg List.length h
    simp at this; omega
  refine ⟨hi, ?_⟩
  have := List.getElem_cons_drop (as := l) (i := i) hi
  rw [h] at this
  exact (List.cons.inj this).1

theorem drop_succ_of_drop {l : List Val} {i : Nat} {d : Val} {rest : List Val} (h : l.drop i = d :: rest) :
    l.drop (i + 1) = rest := by
  have := List.drop_drop (i := 1) (j := i) (l := l)
  rw [h] at this
  simpa [Nat.add_comm] using this.symm

/-- the inner `while`: the block grows as long as the next datum has the same tick -/
theorem innerLoop (ext : Ext) (key : Val → Val) (ds : List Val) (hk : ∀ x ∈ ds, attrVal x "tick" = .ok (key x))
    (c S B : Val) (ev : Option Val) (acc : List Val) (left prev right : Option Val) (pb sp : Val) :
    ∀ (rest : List Val) (d : Val) (i : Nat), ds.drop i = d :: rest →
      Runs ext (.while innerCond innerBody) (gEnv c (.list (Val.ofList ds)) S B ev acc i left ds.length prev pb right sp)
        (.norm (gEnv c (.list (Val.ofList ds)) S B ev acc (i + runLen key d rest) left ds.length prev pb right sp)) := by
  intro rest
  induction rest with
  | nil =>
    intro d i hdrop
    obtain ⟨hi, _⟩ := getElem_of_drop hdrop
    have hlen : i + 1 = ds.length := by
      have := congrArg List.length hdrop
      simp at this; omega
    simp only [runLen, Nat.add_zero]
    refine Runs.while_false ?_
    have : ¬ ((i : Int) + 1 < (ds.length : Int)) := by omega
    simp [innerCond, evalExpr, gEnv, lookup, bind, Except.bind, evalBin, this]
  | cons e es ih =>
    intro d i hdrop
    obtain ⟨hi, hd⟩ := getElem_of_drop hdrop
    have hdrop2 := drop_succ_of_drop hdrop
    obtain ⟨hi2, he⟩ := getElem_of_drop hdrop2
    have hlt : ((i : Int) + 1 < (ds.length : Int)) := by omega
    have hx1 : indexVal (.list (Val.ofList ds)) (.int ((i : Int) + 1)) = .ok ds[i + 1] := by
      have := indexVal_list_nat ds (i + 1) hi2
      simpa using this
    have hx0 := indexVal_list_nat ds i hi
    have hke := hk e (by rw [← he]; exact List.getElem_mem hi2)
    have hkd := hk d (by rw [← hd]; exact List.getElem_mem hi)
    have hcond : evalExpr ext (gEnv c (.list (Val.ofList ds)) S B ev acc i left ds.length prev pb right sp) innerCond >>= truth
        = .ok (key e == key d) := by
      simp [innerCond, evalExpr, gEnv, lookup, bind, Except.bind, evalBin, hlt, hx1, hx0, he, hd, hke, hkd]
    simp only [runLen]
    by_cases hkk : key e = key d
    · simp only [hkk, if_true]
      have hstep : Runs ext innerBody (gEnv c (.list (Val.ofList ds)) S B ev acc i left ds.length prev pb right sp)
          (.norm (gEnv c (.list (Val.ofList ds)) S B ev acc (i + 1) left ds.length prev pb right sp)) := by
        have := Runs.assign (ext := ext) (x := "i") (e := .bin .add (.var "i") (.lit (.int 1)))
          (env := gEnv c (.list (Val.ofList ds)) S B ev acc i left ds.length prev pb right sp) (v := .int ((i : Int) + 1))
          (by simp [evalExpr, gEnv, lookup, bind, Except.bind, evalBin])
        simpa [gEnv, setVar, innerBody] using this
      have h2 := ih e (i + 1) hdrop2
      have hadd : i + (1 + runLen key e es) = i + 1 + runLen key e es := by omega
      rw [hadd]
      exact Runs.while_step (by rw [hcond]; simp [hkk]) (Or.inl hstep) h2
    · simp only [hkk, if_false, Nat.add_zero]
      exact Runs.while_false (by rw [hcond]; simp [hkk])

/-- the fold: `F g prev pb sp` builds the event of block `g` after event `prev` with the two cursors, and hands the cursors on -/
def foldGroups (F : List Val → Val → Val → Val → M (Val × Val × Val)) : List (List Val) → List Val → Val → Val → M (List Val)
  | [], acc, _, _ => .ok acc
  | g :: gs, acc, pb, sp => F g (lastOr acc) pb sp >>= fun r => foldGroups F gs (acc ++ [r.1]) r.2.1 r.2.2

def outerCond : Expr := (.cmp .lt (.var "i") (.var "num_datas"))

def outerBody : Stmt :=
 (.seq (.assign "previous_event" (.ifExp (.var "events") (.index (.var "events") (.lit (.int (-1)))) (.lit .none)))
 (.seq (.assign "left" (.var "i"))
 (.seq (.while innerCond innerBody)
 (.seq (.assign "right" (.bin .add (.var "i") (.lit (.int 1))))
 (.seq (.unpack ["event", "proximal_bpm_event_index", "star_power_event_index"] (.call FN (.econs (.slice (.var "datas") (.var "left") (.var "right")) (.econs (.var "previous_event") (.econs (.var "star_power_events") (.econs (.var "bpm_events") (.econs (.var "proximal_bpm_event_index") (.econs (.var "star_power_event_index") .enil))))))))
 (.seq (.append "events" (.var "event"))
 (.assign "i" (.bin .add (.var "i") (.lit (.int 1))))))))))

theorem slice_block (ds : List Val) (i k : Nat) (d : Val) (rest : List Val) (h : ds.drop i = d :: rest) :
    (ds.take (i + k + 1)).drop i = d :: rest.take k := by
  rw [List.drop_take]
  have : i + k + 1 - i = k + 1 := by omega
  rw [this, h, List.take_succ_cons]

/-- one turn of the outer loop -/
theorem outerBody_run (ext : Ext) (key : Val → Val) (ds : List Val) (hk : ∀ x ∈ ds, attrVal x "tick" = .ok (key x))
    (F : List Val → Val → Val → Val → M (Val × Val × Val)) (c S B : Val)
    (hF : ∀ g p pb sp, ext FN [.list (Val.ofList g), p, S, B, pb, sp] =
      (F g p pb sp).map fun r => .tup (.cons r.1 (.cons r.2.1 (.cons r.2.2 .nil))))
    (ev : Option Val) (acc : List Val) (left prev right : Option Val) (pb sp : Val) (i : Nat) (d : Val) (rest : List Val)
    (hdrop : ds.drop i = d :: rest) :
    match F (d :: rest.take (runLen key d rest)) (lastOr acc) pb sp with
    | .ok r => Runs ext outerBody (gEnv c (.list (Val.ofList ds)) S B ev acc i left ds.length prev pb right sp)
        (.norm (gEnv c (.list (Val.ofList ds)) S B (some r.1) (acc ++ [r.1]) (i + runLen key d rest + 1) (some (.int i)) ds.length
          (some (lastOr acc)) r.2.1 (some (.int ((i + runLen key d rest + 1 : Nat) : Int))) r.2.2))
    | .error err => ∃ env', Runs ext outerBody (gEnv c (.list (Val.ofList ds)) S B ev acc i left ds.length prev pb right sp) (.exc err env') := by
  let D : Val := .list (Val.ofList ds)
  let k := runLen key d rest
  have h1 : Runs ext (.assign "previous_event" (.ifExp (.var "events") (.index (.var "events") (.lit (.int (-1)))) (.lit .none)))
      (gEnv c D S B ev acc i left ds.length prev pb right sp) (.norm (gEnv c D S B ev acc i left ds.length (some (lastOr acc)) pb right sp)) := by
    have := Runs.assign (ext := ext) (x := "previous_event") (v := lastOr acc)
      (prev_expr ext (gEnv c D S B ev acc i left ds.length prev pb right sp) acc (by simp [gEnv, lookup]))
    simpa [gEnv, setVar] using this
  have h2 : Runs ext (.assign "left" (.var "i")) (gEnv c D S B ev acc i left ds.length (some (lastOr acc)) pb right sp)
      (.norm (gEnv c D S B ev acc i (some (.int i)) ds.length (some (lastOr acc)) pb right sp)) := by
    have := Runs.assign (ext := ext) (x := "left") (e := .var "i") (v := .int i)
      (env := gEnv c D S B ev acc i left ds.length (some (lastOr acc)) pb right sp) (by simp [evalExpr, gEnv, lookup])
    simpa [gEnv, setVar] using this
  have h3 := innerLoop ext key ds hk c S B ev acc (some (.int i)) (some (lastOr acc)) right pb sp rest d i hdrop
  have h4 : Runs ext (.assign "right" (.bin .add (.var "i") (.lit (.int 1))))
      (gEnv c D S B ev acc (i + k) (some (.int i)) ds.length (some (lastOr acc)) pb right sp)
      (.norm (gEnv c D S B ev acc (i + k) (some (.int i)) ds.length (some (lastOr acc)) pb (some (.int ((i + k + 1 : Nat) : Int))) sp)) := by
    have := Runs.assign (ext := ext) (x := "right") (e := .bin .add (.var "i") (.lit (.int 1))) (v := .int ((i + k + 1 : Nat) : Int))
      (env := gEnv c D S B ev acc (i + k) (some (.int i)) ds.length (some (lastOr acc)) pb right sp)
      (by simp [evalExpr, gEnv, lookup, bind, Except.bind, evalBin])
    simpa [gEnv, setVar] using this
  have hsl : sliceVal (.list (Val.ofList ds)) (.int (i : Int)) (.int ((i : Int) + (k : Int) + 1)) = .ok (.list (Val.ofList (d :: rest.take k))) := by
    have := sliceVal_list_nat ds i (i + k + 1)
    rw [slice_block ds i k d rest hdrop] at this
    simpa using this
  have hcall : evalExpr ext (gEnv c D S B ev acc (i + k) (some (.int i)) ds.length (some (lastOr acc)) pb (some (.int ((i + k + 1 : Nat) : Int))) sp)
      (.call FN (.econs (.slice (.var "datas") (.var "left") (.var "right")) (.econs (.var "previous_event") (.econs (.var "star_power_events") (.econs (.var "bpm_events") (.econs (.var "proximal_bpm_event_index") (.econs (.var "star_power_event_index") .enil)))))))
      = (F (d :: rest.take k) (lastOr acc) pb sp).map fun r => .tup (.cons r.1 (.cons r.2.1 (.cons r.2.2 .nil))) := by
    simp only [evalExpr, gEnv, lookup, List.find?, bind, Except.bind]
    simp [hsl, Val.toList?, hF, D]
  show match F (d :: rest.take k) (lastOr acc) pb sp with
    | .ok r => _
    | .error err => _
  cases hr : F (d :: rest.take k) (lastOr acc) pb sp with
  | error err =>
    rw [hr] at hcall
    exact ⟨_, Runs.seq h1 (Runs.seq h2 (Runs.seq h3 (Runs.seq h4 (Runs.seq_stop (Runs.unpack_err (by simpa [Except.map] using hcall))
      (by intro e; simp)))))⟩
  | ok r =>
    rw [hr] at hcall
    have h5 : Runs ext (.unpack ["event", "proximal_bpm_event_index", "star_power_event_index"] (.call FN (.econs (.slice (.var "datas") (.var "left") (.var "right")) (.econs (.var "previous_event") (.econs (.var "star_power_events") (.econs (.var "bpm_events") (.econs (.var "proximal_bpm_event_index") (.econs (.var "star_power_event_index") .enil))))))))
        (gEnv c D S B ev acc (i + k) (some (.int i)) ds.length (some (lastOr acc)) pb (some (.int ((i + k + 1 : Nat) : Int))) sp)
        (.norm (gEnv c D S B (some r.1) acc (i + k) (some (.int i)) ds.length (some (lastOr acc)) r.2.1 (some (.int ((i + k + 1 : Nat) : Int))) r.2.2)) := by
      refine Runs.unpack (l := [r.1, r.2.1, r.2.2]) (by simpa [Except.map] using hcall) (by simp [seqOf, Val.toList?]) ?_
      simp [bindAll, gEnv, setVar]
    have h6 : Runs ext (.append "events" (.var "event"))
        (gEnv c D S B (some r.1) acc (i + k) (some (.int i)) ds.length (some (lastOr acc)) r.2.1 (some (.int ((i + k + 1 : Nat) : Int))) r.2.2)
        (.norm (gEnv c D S B (some r.1) (acc ++ [r.1]) (i + k) (some (.int i)) ds.length (some (lastOr acc)) r.2.1 (some (.int ((i + k + 1 : Nat) : Int))) r.2.2)) := by
      have := Runs.append (ext := ext) (x := "events") (e := .var "event") (nl := .list (Val.ofList (acc ++ [r.1])))
        (env := gEnv c D S B (some r.1) acc (i + k) (some (.int i)) ds.length (some (lastOr acc)) r.2.1 (some (.int ((i + k + 1 : Nat) : Int))) r.2.2)
        (by simp [evalExpr, gEnv, lookup, bind, Except.bind, appendVal])
      simpa [gEnv, setVar] using this
    have h7 : Runs ext (.assign "i" (.bin .add (.var "i") (.lit (.int 1))))
        (gEnv c D S B (some r.1) (acc ++ [r.1]) (i + k) (some (.int i)) ds.length (some (lastOr acc)) r.2.1 (some (.int ((i + k + 1 : Nat) : Int))) r.2.2)
        (.norm (gEnv c D S B (some r.1) (acc ++ [r.1]) (i + k + 1) (some (.int i)) ds.length (some (lastOr acc)) r.2.1 (some (.int ((i + k + 1 : Nat) : Int))) r.2.2)) := by
      have := Runs.assign (ext := ext) (x := "i") (e := .bin .add (.var "i") (.lit (.int 1))) (v := .int ((i + k + 1 : Nat) : Int))
        (env := gEnv c D S B (some r.1) (acc ++ [r.1]) (i + k) (some (.int i)) ds.length (some (lastOr acc)) r.2.1 (some (.int ((i + k + 1 : Nat) : Int))) r.2.2)
        (by simp [evalExpr, gEnv, lookup, bind, Except.bind, evalBin])
      simpa [gEnv, setVar] using this
    exact Runs.seq h1 (Runs.seq h2 (Runs.seq h3 (Runs.seq h4 (Runs.seq h5 (Runs.seq h6 h7)))))

/-- the outer `while`, from any block boundary on -/
theorem outerLoop (ext : Ext) (key : Val → Val) (ds : List Val) (hk : ∀ x ∈ ds, attrVal x "tick" = .ok (key x))
    (F : List Val → Val → Val → Val → M (Val × Val × Val)) (c S B : Val)
    (hF : ∀ g p pb sp, ext FN [.list (Val.ofList g), p, S, B, pb, sp] =
      (F g p pb sp).map fun r => .tup (.cons r.1 (.cons r.2.1 (.cons r.2.2 .nil)))) :
    ∀ (n : Nat) (rest : List Val) (i : Nat) (ev : Option Val) (acc : List Val) (left prev right : Option Val) (pb sp : Val),
      rest.length ≤ n → ds.drop i = rest → i ≤ ds.length →
      match foldGroups F (groupsV key rest) acc pb sp with
      | .ok out => ∃ ev' i' left' prev' pb' right' sp',
          Runs ext (.while outerCond outerBody) (gEnv c (.list (Val.ofList ds)) S B ev acc i left ds.length prev pb right sp)
            (.norm (gEnv c (.list (Val.ofList ds)) S B ev' out i' left' ds.length prev' pb' right' sp'))
      | .error err => ∃ env',
          Runs ext (.while outerCond outerBody) (gEnv c (.list (Val.ofList ds)) S B ev acc i left ds.length prev pb right sp) (.exc err env') := by
  intro n
  induction n with
  | zero =>
    intro rest i ev acc left prev right pb sp hn hdrop hi
    have hr : rest = [] := List.length_eq_zero_iff.mp (by omega)
    subst hr
    have hil : ds.length ≤ i := by
      have := congrArg List.length hdrop
      simp at this; omega
    simp only [groupsV, foldGroups]
    exact ⟨ev, i, left, prev, pb, right, sp, Runs.while_false (by
      have : ¬ ((i : Int) < (ds.length : Int)) := by omega
      simp [outerCond, evalExpr, gEnv, lookup, bind, Except.bind, this])⟩
  | succ n ih =>
    intro rest i ev acc left prev right pb sp hn hdrop hi
    cases rest with
    | nil =>
      have hil : ds.length ≤ i := by
        have := congrArg List.length hdrop
        simp at this; omega
      simp only [groupsV, foldGroups]
      exact ⟨ev, i, left, prev, pb, right, sp, Runs.while_false (by
        have : ¬ ((i : Int) < (ds.length : Int)) := by omega
        simp [outerCond, evalExpr, gEnv, lookup, bind, Except.bind, this])⟩
    | cons d rest' =>
      obtain ⟨hil, _⟩ := getElem_of_drop hdrop
      have hcond : evalExpr ext (gEnv c (.list (Val.ofList ds)) S B ev acc i left ds.length prev pb right sp) outerCond >>= truth = .ok true := by
        have : ((i : Int) < (ds.length : Int)) := by omega
        simp [outerCond, evalExpr, gEnv, lookup, bind, Except.bind, this]
      have hb := outerBody_run ext key ds hk F c S B hF ev acc left prev right pb sp i d rest' hdrop
      rw [groupsV_cons]
      simp only [foldGroups, bind, Except.bind]
      cases hr : F (d :: rest'.take (runLen key d rest')) (lastOr acc) pb sp with
      | error err =>
        rw [hr] at hb
        obtain ⟨env', hb⟩ := hb
        exact ⟨env', Runs.while_exit hcond hb (Or.inr ⟨_, _, rfl⟩)⟩
      | ok r =>
        rw [hr] at hb
        have hk2 := runLen_le key rest' d
        have hd2 : ds.drop (i + runLen key d rest' + 1) = rest'.drop (runLen key d rest') := by
          have h1 := drop_succ_of_drop hdrop
          have : i + runLen key d rest' + 1 = (i + 1) + runLen key d rest' := by omega
          rw [this, ← List.drop_drop, h1]
        have hlen : (rest'.drop (runLen key d rest')).length ≤ n := by
          simp only [List.length_drop, List.length_cons] at hn ⊢; omega
        have hi2 : i + runLen key d rest' + 1 ≤ ds.length := by
          have := congrArg List.length hdrop
          simp at this; omega
        have h2 := ih (rest'.drop (runLen key d rest')) (i + runLen key d rest' + 1) (some r.1) (acc ++ [r.1]) (some (.int i))
          (some (lastOr acc)) (some (.int ((i + runLen key d rest' + 1 : Nat) : Int))) r.2.1 r.2.2 hlen hd2 hi2
        simp only []
        cases hf : foldGroups F (groupsV key (rest'.drop (runLen key d rest'))) (acc ++ [r.1]) r.2.1 r.2.2 with
        | error err =>
          rw [hf] at h2
          obtain ⟨env', h2⟩ := h2
          exact ⟨env', Runs.while_step hcond (Or.inl hb) h2⟩
        | ok out =>
          rw [hf] at h2
          obtain ⟨ev', i', left', prev', pb', right', sp', h2⟩ := h2
          exact ⟨ev', i', left', prev', pb', right', sp', Runs.while_step hcond (Or.inl hb) h2⟩

/-- **`_build_note_events_from_data` is the fold over the tick groups** — for every list of data (each with a `tick`), whatever
    `NoteEvent.from_parsed_data` does with a block, the previous event and the two cursors -/
theorem buildNoteEvents_tie (ext : Ext) (key : Val → Val) (ds : List Val) (hk : ∀ x ∈ ds, attrVal x "tick" = .ok (key x))
    (F : List Val → Val → Val → Val → M (Val × Val × Val)) (c S B : Val)
    (hF : ∀ g p pb sp, ext FN [.list (Val.ofList g), p, S, B, pb, sp] =
      (F g p pb sp).map fun r => .tup (.cons r.1 (.cons r.2.1 (.cons r.2.2 .nil)))) :
    Returns ext Gen.Imp.buildNoteEvents
      (initEnv [("cls", c), ("datas", .list (Val.ofList ds)), ("star_power_events", S), ("bpm_events", B)] Gen.Imp.buildNoteEventsLocals)
      ((foldGroups F (groupsV key ds) [] (.int 0) (.int 0)).map fun out => .list (Val.ofList out)) := by
  have h0 : initEnv [("cls", c), ("datas", .list (Val.ofList ds)), ("star_power_events", S), ("bpm_events", B)] Gen.Imp.buildNoteEventsLocals
      = [("cls", some c), ("datas", some (.list (Val.ofList ds))), ("star_power_events", some S), ("bpm_events", some B), ("event", none),
         ("events", none), ("i", none), ("left", none), ("num_datas", none), ("previous_event", none),
         ("proximal_bpm_event_index", none), ("right", none), ("star_power_event_index", none)] := by
    simp [initEnv, Gen.Imp.buildNoteEventsLocals]
  rw [h0]
  let D : Val := .list (Val.ofList ds)
  let E := fun (evs i n pb sp : Option Val) => ([("cls", some c), ("datas", some D), ("star_power_events", some S), ("bpm_events", some B),
    ("event", none), ("events", evs), ("i", i), ("left", none), ("num_datas", n), ("previous_event", none),
    ("proximal_bpm_event_index", pb), ("right", none), ("star_power_event_index", sp)] : Env)
  have e1 : Runs ext (.assign "proximal_bpm_event_index" (.lit (.int 0))) (E none none none none none) (.norm (E none none none (some (.int 0)) none)) := by
    have := Runs.assign (ext := ext) (x := "proximal_bpm_event_index") (e := .lit (.int 0)) (v := .int 0) (env := E none none none none none) (by simp [evalExpr])
    simpa [E, setVar] using this
  have e2 : Runs ext (.assign "star_power_event_index" (.lit (.int 0))) (E none none none (some (.int 0)) none) (.norm (E none none none (some (.int 0)) (some (.int 0)))) := by
    have := Runs.assign (ext := ext) (x := "star_power_event_index") (e := .lit (.int 0)) (v := .int 0) (env := E none none none (some (.int 0)) none) (by simp [evalExpr])
    simpa [E, setVar] using this
  have e3 : Runs ext (.assign "events" (.mkList .enil)) (E none none none (some (.int 0)) (some (.int 0)))
      (.norm (E (some (.list .nil)) none none (some (.int 0)) (some (.int 0)))) := by
    have := Runs.assign (ext := ext) (x := "events") (e := .mkList .enil) (v := .list .nil) (env := E none none none (some (.int 0)) (some (.int 0)))
      (by simp [evalExpr, bind, Except.bind])
    simpa [E, setVar] using this
  have e4 : Runs ext (.assign "i" (.lit (.int 0))) (E (some (.list .nil)) none none (some (.int 0)) (some (.int 0)))
      (.norm (E (some (.list .nil)) (some (.int 0)) none (some (.int 0)) (some (.int 0)))) := by
    have := Runs.assign (ext := ext) (x := "i") (e := .lit (.int 0)) (v := .int 0) (env := E (some (.list .nil)) none none (some (.int 0)) (some (.int 0)))
      (by simp [evalExpr])
    simpa [E, setVar] using this
  have e5 : Runs ext (.assign "num_datas" (.len (.var "datas"))) (E (some (.list .nil)) (some (.int 0)) none (some (.int 0)) (some (.int 0)))
      (.norm (gEnv c D S B none [] 0 none ds.length none (.int 0) none (.int 0))) := by
    have := Runs.assign (ext := ext) (x := "num_datas") (e := .len (.var "datas")) (v := .int ds.length)
      (env := E (some (.list .nil)) (some (.int 0)) none (some (.int 0)) (some (.int 0))) (by simp [evalExpr, E, D, lookup, bind, Except.bind])
    simpa [E, setVar, gEnv, Val.ofList] using this
  have hl := outerLoop ext key ds hk F c S B hF ds.length ds 0 none [] none none none (.int 0) (.int 0) (Nat.le_refl _) (by simp) (by omega)
  show Returns ext Gen.Imp.buildNoteEvents (E none none none none none) _
  unfold Gen.Imp.buildNoteEvents
  cases hf : foldGroups F (groupsV key ds) [] (.int 0) (.int 0) with
  | error err =>
    rw [hf] at hl
    obtain ⟨env', hl⟩ := hl
    exact ⟨env', Runs.seq e1 (Runs.seq e2 (Runs.seq e3 (Runs.seq e4 (Runs.seq e5 (Runs.seq_stop hl (by intro e; simp))))))⟩
  | ok out =>
    rw [hf] at hl
    obtain ⟨ev', i', left', prev', pb', right', sp', hl⟩ := hl
    exact Or.inl (Runs.seq e1 (Runs.seq e2 (Runs.seq e3 (Runs.seq e4 (Runs.seq e5 (Runs.seq hl
      (Runs.ret (by simp [evalExpr, gEnv, lookup]))))))))

end Chartparse.Tie
