import Chartparse.Gen.Imp
import Chartparse.Proofs.ImpRules
/-! `Chart.notes_per_second` as written in /repo today — the track look-up with its `KeyError → ValueError`, the note-less track, the
    two argument forms with their defaults (an omitted start is time zero, an omitted end is the track's last note end, a tick bound
    is the tempo map's hint-free time of that tick), the assertions on mixed forms — proved, for all arguments, to resolve the interval
    as `boundsV` says and to hand exactly that interval and the track's notes to `_notes_per_second` (whose arithmetic `Tie/Nps.lean`
    ties). -/
namespace Chartparse.Tie
open Chartparse Chartparse.PyImp

def QRY : String := ".timestamp_at_tick_no_optimize_return"

/-- the look-up `self.instrument_tracks[instrument][difficulty]`, a missing key reported as `ValueError` -/
def trackOf (self instrument difficulty : Val) : M Val :=
  match (attrVal self "instrument_tracks" >>= fun m => indexVal m instrument >>= fun m2 => indexVal m2 difficulty) with
  | .error (.internal "KeyError") => .error .valueError
  | r => r

/-- the interval the call works on: `(start_time, end_time)` -/
def boundsV (ext : Ext) (self start «end» lne : Val) : M (Val × Val) :=
  if start == .none || isIntB start then
    if !(«end» == .none || isIntB «end») then .error (.internal "AssertionError")
    else
      (if start != .none then
          (attrVal self "sync_track" >>= fun st => attrVal st "bpm_events") >>= fun be => ext QRY [be, start]
        else .ok (.td 0)) >>= fun st =>
      (if «end» != .none then
          (attrVal self "sync_track" >>= fun st => attrVal st "bpm_events") >>= fun be => ext QRY [be, «end»]
        else .ok lne) >>= fun et => .ok (st, et)
  else if isTdB start then
    if !(«end» == .none || isTdB «end») then .error (.internal "AssertionError")
    else .ok (start, if «end» != .none then «end» else lne)
  else .error (.internal "UnreachableError")

def npsV (ext : Ext) (self instrument difficulty start «end» : Val) : M Val :=
  trackOf self instrument difficulty >>= fun track =>
  (attrVal track "note_events" >>= truth) >>= fun has =>
  if !has then .error .valueError else
  attrVal track "last_note_end_timestamp" >>= fun lne =>
  if lne == .none then .error (.internal "AssertionError") else
  boundsV ext self start «end» lne >>= fun b =>
  attrVal track "note_events" >>= fun evs => ext "._notes_per_second" [self, evs, b.1, b.2]

end Chartparse.Tie

namespace Chartparse.Tie
open Chartparse Chartparse.PyImp

macro "ev_simp2" : tactic =>
  `(tactic| ((try simp (disch := decide) only [evalExpr, lookup_setVar_self, lookup_setVar_ne])
             <;> (try simp [lookup, bind, Except.bind, Val.toList?, QRY])))

def rateEnv (self instrument difficulty start «end» : Val) : Env :=
  [("self", some self), ("instrument", some instrument), ("difficulty", some difficulty), ("start", some start), ("end", some «end»),
   ("end_time", none), ("start_time", none), ("track", none)]

theorem cond_or_int (ext : Ext) (env : Env) (x : String) (v : Val) (h : lookup env x = .ok v) :
    evalExpr ext env (.or (.isNone (.var x)) (.isInt (.var x))) >>= truth = .ok (v == .none || isIntB v) := by
  simp only [evalExpr, h, bind, Except.bind, truth_bool]
  cases hv : (v == Val.none) <;> simp [hv]

theorem cond_or_td (ext : Ext) (env : Env) (x : String) (v : Val) (h : lookup env x = .ok v) :
    evalExpr ext env (.or (.isNone (.var x)) (.isTd (.var x))) >>= truth = .ok (v == .none || isTdB v) := by
  simp only [evalExpr, h, bind, Except.bind, truth_bool]
  cases hv : (v == Val.none) <;> simp [hv]

theorem cond_not_or_int (ext : Ext) (env : Env) (x : String) (v : Val) (h : lookup env x = .ok v) :
    evalExpr ext env (.not (.or (.isNone (.var x)) (.isInt (.var x)))) >>= truth = .ok (!(v == .none || isIntB v)) := by
  simp only [evalExpr, h, bind, Except.bind, truth_bool]
  cases hv : (v == Val.none) <;> simp [hv]

theorem cond_not_or_td (ext : Ext) (env : Env) (x : String) (v : Val) (h : lookup env x = .ok v) :
    evalExpr ext env (.not (.or (.isNone (.var x)) (.isTd (.var x)))) >>= truth = .ok (!(v == .none || isTdB v)) := by
  simp only [evalExpr, h, bind, Except.bind, truth_bool]
  cases hv : (v == Val.none) <;> simp [hv]

/-- the branch on the argument form: it falls through with `start_time` / `end_time` set as `boundsV` says -/
theorem bounds_falls (ext : Ext) (self instrument difficulty start «end» track lne : Val)
    (hl : attrVal track "last_note_end_timestamp" = .ok lne) :
    Falls ext
      (.ite (.or (.isNone (.var "start")) (.isInt (.var "start")))
        (.seq (.ite (.not (.or (.isNone (.var "end")) (.isInt (.var "end")))) (.raise (.internal "AssertionError")) .skip)
        (.seq (.assign "start_time" (.ifExp (.not (.isNone (.var "start"))) (.call ".timestamp_at_tick_no_optimize_return" (.econs (.attr (.attr (.var "self") "sync_track") "bpm_events") (.econs (.var "start") .enil))) (.lit (.td 0))))
        (.assign "end_time" (.ifExp (.not (.isNone (.var "end"))) (.call ".timestamp_at_tick_no_optimize_return" (.econs (.attr (.attr (.var "self") "sync_track") "bpm_events") (.econs (.var "end") .enil))) (.attr (.var "track") "last_note_end_timestamp")))))
        (.ite (.isTd (.var "start"))
          (.seq (.ite (.not (.or (.isNone (.var "end")) (.isTd (.var "end")))) (.raise (.internal "AssertionError")) .skip)
          (.seq (.assign "start_time" (.ifExp (.not (.isNone (.var "start"))) (.var "start") (.lit (.td 0))))
          (.assign "end_time" (.ifExp (.not (.isNone (.var "end"))) (.var "end") (.attr (.var "track") "last_note_end_timestamp")))))
          (.raise (.internal "UnreachableError"))))
      (setVar (rateEnv self instrument difficulty start «end») "track" track)
      ((boundsV ext self start «end» lne).map fun b =>
        setVar (setVar (setVar (rateEnv self instrument difficulty start «end») "track" track) "start_time" b.1) "end_time" b.2) := by
  let E1 := setVar (rateEnv self instrument difficulty start «end») "track" track
  have hs : lookup E1 "start" = .ok start := by simp (disch := decide) only [E1, lookup_setVar_ne]; simp [rateEnv, lookup]
  have he : lookup E1 "end" = .ok «end» := by simp (disch := decide) only [E1, lookup_setVar_ne]; simp [rateEnv, lookup]
  have hself : lookup E1 "self" = .ok self := by simp (disch := decide) only [E1, lookup_setVar_ne]; simp [rateEnv, lookup]
  have htr : lookup E1 "track" = .ok track := by simp only [E1, lookup_setVar_self]
  -- the two conditional expressions of the tick form, in any environment that still holds self / start / end / track
  have qexpr : ∀ (env : Env) (x : String) (v dflt : Val) (de : Expr), lookup env x = .ok v → lookup env "self" = .ok self →
      evalExpr ext env de = .ok dflt →
      evalExpr ext env (.ifExp (.not (.isNone (.var x))) (.call ".timestamp_at_tick_no_optimize_return" (.econs (.attr (.attr (.var "self") "sync_track") "bpm_events") (.econs (.var x) .enil))) de)
        = (if v != .none then (attrVal self "sync_track" >>= fun st => attrVal st "bpm_events") >>= fun be => ext QRY [be, v] else .ok dflt) := by
    intro env x v dflt de hx hsf hd
    by_cases hv : v = .none
    · subst hv; simp [evalExpr, hx, hd, bind, Except.bind]
    · have hb : (v == Val.none) = false := by simpa using hv
      have hb2 : (v != Val.none) = true := by simp [bne, hb]
      simp only [evalExpr, hx, hsf, bind, Except.bind, hb, truth_bool, Bool.not_false, if_true, hb2, QRY]
      cases hA : attrVal self "sync_track" with
      | error e => rfl
      | ok st =>
        cases hB : attrVal st "bpm_events" with
        | error e => simp [hB]
        | ok be => simp [hB, Val.toList?]
  show Falls ext _ E1 _
  unfold boundsV
  by_cases h1 : (start == .none || isIntB start) = true
  · -- ticks (or nothing)
    simp only [h1, if_true]
    have hbranch : ∀ ra, Falls ext
        (.seq (.ite (.not (.or (.isNone (.var "end")) (.isInt (.var "end")))) (.raise (.internal "AssertionError")) .skip)
        (.seq (.assign "start_time" (.ifExp (.not (.isNone (.var "start"))) (.call ".timestamp_at_tick_no_optimize_return" (.econs (.attr (.attr (.var "self") "sync_track") "bpm_events") (.econs (.var "start") .enil))) (.lit (.td 0))))
        (.assign "end_time" (.ifExp (.not (.isNone (.var "end"))) (.call ".timestamp_at_tick_no_optimize_return" (.econs (.attr (.attr (.var "self") "sync_track") "bpm_events") (.econs (.var "end") .enil))) (.attr (.var "track") "last_note_end_timestamp")))))
        E1 ra → Falls ext _ E1 ra := fun ra h => by
      have := Falls.ite (ext := ext) (b := (.ite (.isTd (.var "start"))
          (.seq (.ite (.not (.or (.isNone (.var "end")) (.isTd (.var "end")))) (.raise (.internal "AssertionError")) .skip)
          (.seq (.assign "start_time" (.ifExp (.not (.isNone (.var "start"))) (.var "start") (.lit (.td 0))))
          (.assign "end_time" (.ifExp (.not (.isNone (.var "end"))) (.var "end") (.attr (.var "track") "last_note_end_timestamp")))))
          (.raise (.internal "UnreachableError")))) (rb := .ok E1) (.ok true) (by rw [cond_or_int ext E1 "start" start hs, h1]) (fun _ => h) (fun hh => by cases hh)
      simpa [bind, Except.bind] using this
    apply hbranch
    by_cases h2 : («end» == .none || isIntB «end») = true
    · simp only [h2, Bool.not_true, Bool.false_eq_true, if_false]
      have g1 := Falls.guard (ext := ext) (env := E1) (E := .internal "AssertionError") (.ok false)
        (by rw [cond_not_or_int ext E1 "end" «end» he, h2]; rfl)
      simp only [bind, Except.bind, Bool.false_eq_true, if_false] at g1
      have hq1 := qexpr E1 "start" start (.td 0) (.lit (.td 0)) hs hself (by simp [evalExpr])
      have a1 := Falls.assign (ext := ext) (env := E1) (x := "start_time") _ hq1
      have hA12 : Falls ext
          (.seq (.assign "start_time" (.ifExp (.not (.isNone (.var "start"))) (.call ".timestamp_at_tick_no_optimize_return" (.econs (.attr (.attr (.var "self") "sync_track") "bpm_events") (.econs (.var "start") .enil))) (.lit (.td 0))))
          (.assign "end_time" (.ifExp (.not (.isNone (.var "end"))) (.call ".timestamp_at_tick_no_optimize_return" (.econs (.attr (.attr (.var "self") "sync_track") "bpm_events") (.econs (.var "end") .enil))) (.attr (.var "track") "last_note_end_timestamp"))))
          E1
          (((if start != .none then (attrVal self "sync_track" >>= fun st => attrVal st "bpm_events") >>= fun be => ext QRY [be, start] else .ok (.td 0)).map fun v => setVar E1 "start_time" v) >>= fun env2 =>
            (if «end» != .none then (attrVal self "sync_track" >>= fun st => attrVal st "bpm_events") >>= fun be => ext QRY [be, «end»] else .ok lne).map fun v => setVar env2 "end_time" v) := by
        refine Falls.seq a1 ?_
        intro env2 henv2
        cases hst : (if start != .none then (attrVal self "sync_track" >>= fun st => attrVal st "bpm_events") >>= fun be => ext QRY [be, start] else .ok (.td 0)) with
        | error e => rw [hst] at henv2; cases henv2
        | ok st =>
          rw [hst] at henv2
          simp only [Except.map] at henv2
          cases henv2
          have hq2 := qexpr (setVar E1 "start_time" st) "end" «end» lne (.attr (.var "track") "last_note_end_timestamp")
            (by rw [lookup_setVar_ne _ _ _ _ (by decide)]; exact he) (by rw [lookup_setVar_ne _ _ _ _ (by decide)]; exact hself)
            (by simp only [evalExpr]; rw [lookup_setVar_ne _ _ _ _ (by decide), htr]; simpa [bind, Except.bind] using hl)
          exact Falls.assign _ hq2
      have h' := Falls.seq (g := fun _ =>
          ((if start != .none then (attrVal self "sync_track" >>= fun st => attrVal st "bpm_events") >>= fun be => ext QRY [be, start] else .ok (.td 0)).map fun v => setVar E1 "start_time" v) >>= fun env2 =>
            (if «end» != .none then (attrVal self "sync_track" >>= fun st => attrVal st "bpm_events") >>= fun be => ext QRY [be, «end»] else .ok lne).map fun v => setVar env2 "end_time" v)
        g1 (fun env' henv => by cases henv; exact hA12)
      have heq : ∀ (A B : M Val), ((Except.ok E1 : M Env) >>= fun _ => (A.map fun v => setVar E1 "start_time" v) >>= fun env2 => B.map fun v => setVar env2 "end_time" v)
          = Except.map (fun b : Val × Val => setVar (setVar E1 "start_time" b.1) "end_time" b.2) (A >>= fun st => B >>= fun et => .ok (st, et)) := by
        intro A B
        cases A with
        | error e => rfl
        | ok st => cases B <;> rfl
      rw [heq] at h'
      exact h'
    · have h2' : («end» == .none || isIntB «end») = false := by simpa using h2
      simp only [h2', Bool.not_false, if_true, Except.map]
      show Falls ext _ E1 (.error (.internal "AssertionError"))
      have g1 := Falls.guard (ext := ext) (env := E1) (E := .internal "AssertionError") (.ok true)
        (by rw [cond_not_or_int ext E1 "end" «end» he, h2']; rfl)
      simp only [bind, Except.bind, if_true] at g1
      obtain ⟨e'', g1⟩ := g1
      exact ⟨e'', Runs.seq_stop g1 (by intro e; simp)⟩
  · have h1' : (start == .none || isIntB start) = false := by simpa using h1
    simp only [h1', Bool.false_eq_true, if_false]
    have hsn : (start == Val.none) = false := by
      cases hh : (start == Val.none) <;> simp_all
    have hsn2 : (start != Val.none) = true := by simp [bne, hsn]
    by_cases h3 : isTdB start = true
    · simp only [h3, if_true]
      have hbranch : ∀ ra, Falls ext
          (.seq (.ite (.not (.or (.isNone (.var "end")) (.isTd (.var "end")))) (.raise (.internal "AssertionError")) .skip)
          (.seq (.assign "start_time" (.ifExp (.not (.isNone (.var "start"))) (.var "start") (.lit (.td 0))))
          (.assign "end_time" (.ifExp (.not (.isNone (.var "end"))) (.var "end") (.attr (.var "track") "last_note_end_timestamp")))))
          E1 ra → Falls ext _ E1 ra := fun ra h => by
        have inner := Falls.ite (ext := ext) (env := E1) (c := .isTd (.var "start")) (b := .raise (.internal "UnreachableError")) (rb := .ok E1) (.ok true)
          (by simp [evalExpr, hs, bind, Except.bind, h3]) (fun _ => h) (fun hh => by cases hh)
        have := Falls.ite (ext := ext) (env := E1) (a := (.seq (.ite (.not (.or (.isNone (.var "end")) (.isInt (.var "end")))) (.raise (.internal "AssertionError")) .skip)
            (.seq (.assign "start_time" (.ifExp (.not (.isNone (.var "start"))) (.call ".timestamp_at_tick_no_optimize_return" (.econs (.attr (.attr (.var "self") "sync_track") "bpm_events") (.econs (.var "start") .enil))) (.lit (.td 0))))
            (.assign "end_time" (.ifExp (.not (.isNone (.var "end"))) (.call ".timestamp_at_tick_no_optimize_return" (.econs (.attr (.attr (.var "self") "sync_track") "bpm_events") (.econs (.var "end") .enil))) (.attr (.var "track") "last_note_end_timestamp"))))))
          (ra := .ok E1) (.ok false) (by rw [cond_or_int ext E1 "start" start hs, h1']) (fun hh => by cases hh) (fun _ => inner)
        simpa [bind, Except.bind] using this
      apply hbranch
      by_cases h2 : («end» == .none || isTdB «end») = true
      · simp only [h2, Bool.not_true, Bool.false_eq_true, if_false, Except.map]
        have g1 := Falls.guard (ext := ext) (env := E1) (E := .internal "AssertionError") (.ok false)
          (by rw [cond_not_or_td ext E1 "end" «end» he, h2]; rfl)
        simp only [bind, Except.bind, Bool.false_eq_true, if_false] at g1
        have a1 : Runs ext (.assign "start_time" (.ifExp (.not (.isNone (.var "start"))) (.var "start") (.lit (.td 0)))) E1 (.norm (setVar E1 "start_time" start)) :=
          Runs.assign (by simp [evalExpr, hs, bind, Except.bind, hsn])
        have a2 : Runs ext (.assign "end_time" (.ifExp (.not (.isNone (.var "end"))) (.var "end") (.attr (.var "track") "last_note_end_timestamp")))
            (setVar E1 "start_time" start) (.norm (setVar (setVar E1 "start_time" start) "end_time" (if «end» != .none then «end» else lne))) := by
          refine Runs.assign ?_
          have he2 : lookup (setVar E1 "start_time" start) "end" = .ok «end» := by rw [lookup_setVar_ne _ _ _ _ (by decide)]; exact he
          have ht2 : lookup (setVar E1 "start_time" start) "track" = .ok track := by rw [lookup_setVar_ne _ _ _ _ (by decide)]; exact htr
          by_cases hen : «end» = .none
          · subst hen; simp [evalExpr, he2, ht2, bind, Except.bind, hl]
          · have hb : («end» == Val.none) = false := by simpa using hen
            simp [evalExpr, he2, bind, Except.bind, hb, bne]
        exact Runs.seq g1 (Runs.seq a1 a2)
      · have h2' : («end» == .none || isTdB «end») = false := by simpa using h2
        simp only [h2', Bool.not_false, if_true, Except.map]
        show Falls ext _ E1 (.error (.internal "AssertionError"))
        have g1 := Falls.guard (ext := ext) (env := E1) (E := .internal "AssertionError") (.ok true)
          (by rw [cond_not_or_td ext E1 "end" «end» he, h2']; rfl)
        simp only [bind, Except.bind, if_true] at g1
        obtain ⟨e'', g1⟩ := g1
        exact ⟨e'', Runs.seq_stop g1 (by intro e; simp)⟩
    · have h3' : isTdB start = false := by simpa using h3
      simp only [h3', Bool.false_eq_true, if_false, Except.map]
      exact ⟨E1, Runs.ite_false (by rw [cond_or_int ext E1 "start" start hs, h1'])
        (Runs.ite_false (by simp [evalExpr, hs, bind, Except.bind, h3']) (Runs.raise _ _ _))⟩

end Chartparse.Tie

namespace Chartparse.Tie
open Chartparse Chartparse.PyImp

theorem trackOf_ok {self i d track : Val} (h : (attrVal self "instrument_tracks" >>= fun m => indexVal m i >>= fun m2 => indexVal m2 d) = .ok track) :
    trackOf self i d = .ok track := by unfold trackOf; rw [h]

theorem trackOf_key {self i d : Val} (h : (attrVal self "instrument_tracks" >>= fun m => indexVal m i >>= fun m2 => indexVal m2 d) = .error (.internal "KeyError")) :
    trackOf self i d = .error .valueError := by
  unfold trackOf; rw [h]
  split
  · rfl
  · rename_i hne; exact absurd rfl hne

theorem trackOf_err {self i d : Val} {err : PyErr} (h : (attrVal self "instrument_tracks" >>= fun m => indexVal m i >>= fun m2 => indexVal m2 d) = .error err)
    (hk : err ≠ .internal "KeyError") : trackOf self i d = .error err := by
  unfold trackOf; rw [h]
  split
  · rename_i heq; injection heq with heq; exact absurd heq hk
  · rfl

/-- **`Chart.notes_per_second` resolves its interval as `boundsV` says and hands it to `_notes_per_second`** -/
theorem notesPerSecond_tie (ext : Ext) (self instrument difficulty start «end» : Val) :
    Returns ext Gen.Imp.notesPerSecond
      (initEnv [("self", self), ("instrument", instrument), ("difficulty", difficulty), ("start", start), ("end", «end»)] Gen.Imp.notesPerSecondLocals)
      (npsV ext self instrument difficulty start «end») := by
  have h0 : initEnv [("self", self), ("instrument", instrument), ("difficulty", difficulty), ("start", start), ("end", «end»)] Gen.Imp.notesPerSecondLocals
      = rateEnv self instrument difficulty start «end» := by
    simp [initEnv, Gen.Imp.notesPerSecondLocals, rateEnv]
  rw [h0]
  let E0 := rateEnv self instrument difficulty start «end»
  have hlook : evalExpr ext E0 (.index (.index (.attr (.var "self") "instrument_tracks") (.var "instrument")) (.var "difficulty"))
      = (attrVal self "instrument_tracks" >>= fun m => indexVal m instrument >>= fun m2 => indexVal m2 difficulty) := by
    simp only [E0, rateEnv, evalExpr, lookup, List.find?]
    simp [bind, Except.bind]
    cases attrVal self "instrument_tracks" with
    | error e => rfl
    | ok m => cases indexVal m instrument <;> rfl
  have t1 := Falls.try_assign (ext := ext) (env := E0) (x := "track") (K := .internal "KeyError") (E' := .valueError) _ hlook
  have hkey : ∀ e : PyErr, e ≠ .internal "KeyError" →
      (match (Except.error e : M Val) with | .error (.internal "KeyError") => (Except.error PyErr.valueError : M Val) | r => r) = .error e := by
    intro e he
    split
    · rename_i heq; injection heq with heq; exact absurd heq he
    · rfl
  unfold Gen.Imp.notesPerSecond npsV
  show Returns ext _ E0 _
  cases hr : (attrVal self "instrument_tracks" >>= fun m => indexVal m instrument >>= fun m2 => indexVal m2 difficulty) with
  | error err =>
    rw [hr] at t1
    by_cases hk : err = .internal "KeyError"
    · subst hk
      simp only [if_true, Except.map] at t1
      obtain ⟨e'', t1⟩ := t1
      rw [trackOf_key hr, err_bind]
      exact ⟨e'', Runs.seq_stop t1 (by intro e; simp)⟩
    · simp only [hk, if_false, Except.map] at t1
      obtain ⟨e'', t1⟩ := t1
      rw [trackOf_err hr hk, err_bind]
      exact ⟨e'', Runs.seq_stop t1 (by intro e; simp)⟩
  | ok track =>
    rw [hr] at t1
    simp only [Except.map] at t1
    rw [trackOf_ok hr, ok_bind]
    let E1 := setVar E0 "track" track
    have htr : lookup E1 "track" = .ok track := by simp only [E1, lookup_setVar_self]
    refine Returns.seq_norm t1 ?_
    -- no notes
    have hc1 : evalExpr ext E1 (.not (.attr (.var "track") "note_events")) >>= truth = (attrVal track "note_events" >>= truth) >>= fun b => .ok (!b) := by
      simp only [evalExpr, htr, bind, Except.bind]
      cases attrVal track "note_events" with
      | error e => rfl
      | ok v => simp only []; cases truth v <;> rfl
    have g1 := Falls.guard (ext := ext) (env := E1) (E := .valueError) _ hc1
    cases hne : (attrVal track "note_events" >>= truth) with
    | error e =>
      rw [hne, err_bind, err_bind] at g1
      rw [err_bind]
      obtain ⟨e'', g1⟩ := g1
      exact ⟨e'', Runs.seq_stop g1 (by intro e; simp)⟩
    | ok has =>
      rw [hne, ok_bind, ok_bind] at g1
      rw [ok_bind]
      cases has with
      | false =>
        simp only [Bool.not_false, if_true] at g1 ⊢
        obtain ⟨e'', g1⟩ := g1
        exact ⟨e'', Runs.seq_stop g1 (by intro e; simp)⟩
      | true =>
        simp only [Bool.not_true, Bool.false_eq_true, if_false] at g1 ⊢
        refine Returns.seq_norm g1 ?_
        -- the last note end is known
        have hc2 : evalExpr ext E1 (.not (.not (.isNone (.attr (.var "track") "last_note_end_timestamp")))) >>= truth
            = attrVal track "last_note_end_timestamp" >>= fun l => .ok (l == .none) := by
          simp only [evalExpr, htr, bind, Except.bind]
          cases attrVal track "last_note_end_timestamp" with
          | error e => rfl
          | ok v => simp
        have g2 := Falls.guard (ext := ext) (env := E1) (E := .internal "AssertionError") _ hc2
        cases hl : attrVal track "last_note_end_timestamp" with
        | error e =>
          rw [hl, err_bind, err_bind] at g2
          rw [err_bind]
          obtain ⟨e'', g2⟩ := g2
          exact ⟨e'', Runs.seq_stop g2 (by intro e; simp)⟩
        | ok lne =>
          rw [hl, ok_bind, ok_bind] at g2
          rw [ok_bind]
          by_cases hn : (lne == Val.none) = true
          · simp only [hn, if_true] at g2 ⊢
            obtain ⟨e'', g2⟩ := g2
            exact ⟨e'', Runs.seq_stop g2 (by intro e; simp)⟩
          · have hn' : (lne == Val.none) = false := by simpa using hn
            simp only [hn', Bool.false_eq_true, if_false] at g2 ⊢
            refine Returns.seq_norm g2 ?_
            have hb := bounds_falls ext self instrument difficulty start «end» track lne hl
            cases hbv : boundsV ext self start «end» lne with
            | error e =>
              rw [hbv] at hb
              rw [err_bind]
              obtain ⟨e'', hb⟩ := hb
              exact ⟨e'', Runs.seq_stop hb (by intro e; simp)⟩
            | ok b =>
              rw [hbv] at hb
              rw [ok_bind]
              simp only [Except.map] at hb
              refine Returns.seq_norm hb ?_
              refine Returns.ret_of _ ?_
              simp (disch := decide) only [evalExpr, lookup_setVar_self, lookup_setVar_ne]
              simp only [E0, rateEnv, lookup, List.find?]
              cases hev : attrVal track "note_events" with
              | error e => simp [bind, Except.bind, hev]
              | ok evs => simp [bind, Except.bind, Val.toList?, hev]

end Chartparse.Tie
