import Chartparse.Gen.Imp
import Chartparse.Proofs.ImpRules
/-! `Metadata.from_chart_lines.parse_all_lines_for_field` as written in /repo today: the field's recogniser is looked up once, the lines
    are tried in order, the **first** line it matches decides the field (its captured text through the field's processing function),
    and a field no line matches is `RegexNotMatchError` (which the caller turns into the default or `MissingRequiredField`). Proved for
    every list of lines and whatever the recogniser and the processing function do. -/
namespace Chartparse.Tie
open Chartparse Chartparse.PyImp

def SPECS : String := "_field_parsing_specs[]"

/-- the lines in order: the first one the recogniser matches decides -/
def firstMatchV (ext : Ext) (field prog : Val) : List Val → M Val
  | [] => .error .regexNotMatch
  | l :: ls => ext ".match" [prog, l] >>= fun m => truth m >>= fun t =>
    if t then ext SPECS [field] >>= fun sp => ext ".group" [m, .int 1] >>= fun g => ext ".processing_fn" [sp, g]
    else firstMatchV ext field prog ls

def fieldV (ext : Ext) (field : Val) (lines : List Val) : M Val :=
  (ext SPECS [field] >>= fun sp => attrVal sp "regex_prog") >>= fun prog => firstMatchV ext field prog lines

def fEnv (F L : Val) (line m : Option Val) (prog : Val) : Env :=
  [("field_name", some F), ("lines", some L), ("line", line), ("m", m), ("regex_prog", some prog)]

def fBody : Stmt :=
 (.seq (.assign "m" (.call ".match" (.econs (.var "regex_prog") (.econs (.var "line") .enil))))
 (.ite (.var "m")
 (.ret (.call ".processing_fn" (.econs (.call "_field_parsing_specs[]" (.econs (.var "field_name") .enil)) (.econs (.call ".group" (.econs (.var "m") (.econs (.lit (.int 1)) .enil))) .enil))))
 .skip))

/-- the loop either returns from inside (a value or an exception) or runs out -/
theorem fLoop (ext : Ext) (F L prog : Val) :
    ∀ (ls : List Val) (line m : Option Val),
      match firstMatchV ext F prog ls with
      | .ok v => Runs ext (.forVals "line" (Val.ofList ls) fBody .skip) (fEnv F L line m prog) (.ret v)
      | .error err =>
        (∃ env', Runs ext (.forVals "line" (Val.ofList ls) fBody .skip) (fEnv F L line m prog) (.exc err env')) ∨
        (err = .regexNotMatch ∧ ∃ line' m', Runs ext (.forVals "line" (Val.ofList ls) fBody .skip) (fEnv F L line m prog) (.norm (fEnv F L line' m' prog))) := by
  intro ls
  induction ls with
  | nil =>
    intro line m
    simp only [firstMatchV, Val.ofList]
    exact Or.inr ⟨by first | rfl | trivial, line, m, Runs.forVals_nil (Runs.skip _ _)⟩
  | cons l ls ih =>
    intro line m
    have hset : setVar (fEnv F L line m prog) "line" l = fEnv F L (some l) m prog := by simp [fEnv, setVar]
    have hcall : evalExpr ext (fEnv F L (some l) m prog) (.call ".match" (.econs (.var "regex_prog") (.econs (.var "line") .enil))) = ext ".match" [prog, l] := by
      simp [evalExpr, fEnv, lookup, bind, Except.bind, Val.toList?]
    simp only [firstMatchV, Val.ofList]
    cases hm : ext ".match" [prog, l] with
    | error e =>
      rw [err_bind]
      exact Or.inl ⟨_, Runs.forVals_exit (by rw [hset]; exact Runs.seq_stop (Runs.assign_err (by rw [hcall, hm])) (by intro e; simp)) (Or.inr ⟨_, _, rfl⟩)⟩
    | ok mv =>
      rw [ok_bind]
      have ha : Runs ext (.assign "m" (.call ".match" (.econs (.var "regex_prog") (.econs (.var "line") .enil)))) (fEnv F L (some l) m prog)
          (.norm (fEnv F L (some l) (some mv) prog)) := by
        have := Runs.assign (ext := ext) (x := "m") (v := mv) (env := fEnv F L (some l) m prog) (by rw [hcall, hm])
        simpa [fEnv, setVar] using this
      have hc : evalExpr ext (fEnv F L (some l) (some mv) prog) (.var "m") >>= truth = truth mv := by
        simp [evalExpr, fEnv, lookup, bind, Except.bind]
      cases ht : truth mv with
      | error e =>
        rw [err_bind]
        exact Or.inl ⟨_, Runs.forVals_exit (by rw [hset]; exact Runs.seq ha (Runs.ite_err (by rw [hc, ht]))) (Or.inr ⟨_, _, rfl⟩)⟩
      | ok t =>
        rw [ok_bind]
        cases t with
        | true =>
          simp only [if_true]
          have hret : evalExpr ext (fEnv F L (some l) (some mv) prog)
              (.call ".processing_fn" (.econs (.call "_field_parsing_specs[]" (.econs (.var "field_name") .enil)) (.econs (.call ".group" (.econs (.var "m") (.econs (.lit (.int 1)) .enil))) .enil)))
              = (ext SPECS [F] >>= fun sp => ext ".group" [mv, .int 1] >>= fun g => ext ".processing_fn" [sp, g]) := by
            simp only [evalExpr, fEnv, lookup, List.find?, SPECS]
            simp [bind, Except.bind, Val.toList?]
            cases ext "_field_parsing_specs[]" [F] with
            | error e => rfl
            | ok sp => cases ext ".group" [mv, .int 1] <;> simp [Val.toList?]
          cases hr : (ext SPECS [F] >>= fun sp => ext ".group" [mv, .int 1] >>= fun g => ext ".processing_fn" [sp, g]) with
          | error e =>
            rw [hr] at hret
            exact Or.inl ⟨_, Runs.forVals_exit (by rw [hset]; exact Runs.seq ha (Runs.ite_true (by rw [hc, ht]) (Runs.ret_err hret))) (Or.inr ⟨_, _, rfl⟩)⟩
          | ok v =>
            rw [hr] at hret
            exact Runs.forVals_exit (by rw [hset]; exact Runs.seq ha (Runs.ite_true (by rw [hc, ht]) (Runs.ret hret))) (Or.inl ⟨_, rfl⟩)
        | false =>
          simp only [Bool.false_eq_true, if_false]
          have hb : Runs ext fBody (fEnv F L (some l) m prog) (.norm (fEnv F L (some l) (some mv) prog)) :=
            Runs.seq ha (Runs.ite_false (by rw [hc, ht]) (Runs.skip _ _))
          have h2 := ih (some l) (some mv)
          cases hf : firstMatchV ext F prog ls with
          | ok v =>
            rw [hf] at h2
            exact Runs.forVals_step (Or.inl (by rw [hset]; exact hb)) h2
          | error e =>
            rw [hf] at h2
            rcases h2 with ⟨env', h2⟩ | ⟨he, l', m', h2⟩
            · exact Or.inl ⟨env', Runs.forVals_step (Or.inl (by rw [hset]; exact hb)) h2⟩
            · exact Or.inr ⟨he, l', m', Runs.forVals_step (Or.inl (by rw [hset]; exact hb)) h2⟩

end Chartparse.Tie

namespace Chartparse.Tie
open Chartparse Chartparse.PyImp

/-- **`parse_all_lines_for_field`: the first matching line decides the field** -/
theorem parseAllLinesForField_tie (ext : Ext) (F : Val) (ls : List Val) :
    Returns ext Gen.Imp.parseAllLinesForField
      (initEnv [("field_name", F), ("lines", .list (Val.ofList ls))] Gen.Imp.parseAllLinesForFieldLocals) (fieldV ext F ls) := by
  have h0 : initEnv [("field_name", F), ("lines", .list (Val.ofList ls))] Gen.Imp.parseAllLinesForFieldLocals
      = [("field_name", some F), ("lines", some (.list (Val.ofList ls))), ("line", none), ("m", none), ("regex_prog", none)] := by
    simp [initEnv, Gen.Imp.parseAllLinesForFieldLocals]
  rw [h0]
  unfold Gen.Imp.parseAllLinesForField fieldV
  have hp : evalExpr ext [("field_name", some F), ("lines", some (.list (Val.ofList ls))), ("line", none), ("m", none), ("regex_prog", none)]
      (.attr (.call "_field_parsing_specs[]" (.econs (.var "field_name") .enil)) "regex_prog") = (ext SPECS [F] >>= fun sp => attrVal sp "regex_prog") := by
    simp [evalExpr, lookup, bind, Except.bind, Val.toList?, SPECS]
  cases hpr : (ext SPECS [F] >>= fun sp => attrVal sp "regex_prog") with
  | error e =>
    rw [err_bind]
    rw [hpr] at hp
    exact ⟨_, Runs.seq_stop (Runs.assign_err hp) (by intro e; simp)⟩
  | ok prog =>
    rw [ok_bind]
    rw [hpr] at hp
    have ha : Runs ext (.assign "regex_prog" (.attr (.call "_field_parsing_specs[]" (.econs (.var "field_name") .enil)) "regex_prog"))
        [("field_name", some F), ("lines", some (.list (Val.ofList ls))), ("line", none), ("m", none), ("regex_prog", none)]
        (.norm (fEnv F (.list (Val.ofList ls)) none none prog)) := by
      have := Runs.assign (x := "regex_prog") hp
      simpa [setVar, fEnv] using this
    have hl := fLoop ext F (.list (Val.ofList ls)) prog ls none none
    have hfor : ∀ r, Runs ext (.forVals "line" (Val.ofList ls) fBody .skip) (fEnv F (.list (Val.ofList ls)) none none prog) r →
        Runs ext (.forIn "line" (.var "lines") fBody .skip) (fEnv F (.list (Val.ofList ls)) none none prog) r :=
      fun r h => Runs.forIn_list (by simp [evalExpr, fEnv, lookup]) h
    cases hf : firstMatchV ext F prog ls with
    | ok v =>
      rw [hf] at hl
      exact Or.inl (Runs.seq ha (Runs.seq_stop (hfor _ hl) (by intro e; simp)))
    | error e =>
      rw [hf] at hl
      rcases hl with ⟨env', hl⟩ | ⟨he, l', m', hl⟩
      · exact ⟨env', Runs.seq ha (Runs.seq_stop (hfor _ hl) (by intro e; simp))⟩
      · subst he
        exact ⟨_, Runs.seq ha (Runs.seq (hfor _ hl) (Runs.raise _ _ _))⟩

end Chartparse.Tie
