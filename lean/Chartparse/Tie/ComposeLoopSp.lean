import Chartparse.Tie.LoopSp
import Chartparse.Model.Instrument
/-! What the loop ties say about the hand model (`Model/Instrument.lean`, `Model/Tempo.lean`): the fold the dumped code was
    proved equal to *is* the model's function once values are read through their encodings — so the property theorems about that
    model function are statements about the loop as written in /repo today. -/
namespace Chartparse.Tie
open Chartparse Chartparse.PyImp Chartparse.Inst Chartparse.Tempo

/-! ### star power: `spDataG` is `Inst.spData` -/

theorem candG_eq (t : Nat) (enc : Phrase → Val) (after : Val → Bool) (hA : ∀ p, after (enc p) = p.after t) :
    ∀ (ps : List Phrase) (i : Nat), candG after (ps.map enc) i = cand t ps i := by
  intro ps
  induction ps with
  | nil => intro i; rfl
  | cons p tl ih =>
    intro i
    cases tl with
    | nil => rfl
    | cons q r =>
      simp only [List.map_cons, candG, cand, hA]
      split
      · have := ih (i + 1); simpa using this
      · rfl

/-- the answer of `_compute_star_power_data` as a Python value -/
def encSp (r : Option Nat × Nat) : Val :=
  match r.1 with
  | some k => .tup (.cons (.obj "StarPowerData" (.field "star_power_event_index" (.int k) .fnil)) (.cons (.int r.2) .nil))
  | none => .tup (.cons .none (.cons (.int r.2) .nil))

theorem spDataG_eq (t : Nat) (enc : Phrase → Val) (after during : Val → Bool) (hA : ∀ p, after (enc p) = p.after t)
    (hD : ∀ p, during (enc p) = p.during t) (ps : List Phrase) (start : Nat) :
    spDataG after during (ps.map enc) start = (spData t ps start).map encSp := by
  unfold spDataG spData
  by_cases he : ps = []
  · subst he; simp [Except.map, encSp]
  · have h1 : (ps.map enc).isEmpty = false := by cases ps <;> simp_all
    have h2 : ps.isEmpty = false := by cases ps <;> simp_all
    simp only [h1, h2, List.length_map, Bool.false_eq_true, if_false]
    by_cases hs : ps.length ≤ start
    · simp [hs, Except.map]
    · simp only [hs, if_false]
      have hc : candG after ((ps.map enc).drop start) start = cand t (ps.drop start) start := by
        rw [← List.map_drop]; exact candG_eq t enc after hA _ _
      rw [hc, List.getElem?_map]
      cases hg : ps[cand t (ps.drop start) start]? with
      | none => simp [Except.map]
      | some p =>
        simp only [Option.map_some, hD]
        by_cases hd : p.during t = true <;> simp [hd, Except.map, encSp]

/-- **the dumped `_compute_star_power_data` computes `Inst.spData`** (the function C05's theorems are about), for every list of
    phrases, tick and cursor, when the two phrase predicates answer as `Phrase.after` / `Phrase.during` (which `Tie/Phrase.lean`
    establishes about their own dumped bodies) -/
theorem spData_code (ext : Ext) (t : Nat) (enc : Phrase → Val) (ps : List Phrase) (start : Nat)
    (hA : ∀ p, ext ".tick_is_after_event" [enc p, .int t] = .ok (.bool (p.after t)))
    (hD : ∀ p, ext ".tick_is_during_event" [enc p, .int t] = .ok (.bool (p.during t)))
    (hO : ∀ v, (∀ p, v ≠ enc p) → ext ".tick_is_after_event" [v, .int t] = .ok (.bool false) ∧ ext ".tick_is_during_event" [v, .int t] = .ok (.bool false))
    (dec : Val → Option Phrase) (hdec : ∀ p, dec (enc p) = some p) (hdec' : ∀ v p, dec v = some p → v = enc p) :
    Returns ext Gen.Imp.computeStarPowerData
      (initEnv [("tick", .int t), ("star_power_events", .list (Val.ofList (ps.map enc))), ("proximal_star_power_event_index", .int start)]
        Gen.Imp.computeStarPowerDataLocals)
      ((spData t ps start).map encSp) := by
  let after : Val → Bool := fun v => match dec v with | some p => p.after t | none => false
  let during : Val → Bool := fun v => match dec v with | some p => p.during t | none => false
  have hA' : ∀ v, ext ".tick_is_after_event" [v, .int t] = .ok (.bool (after v)) := by
    intro v
    cases hv : dec v with
    | some p => have := hdec' v p hv; subst this; simp [after, hdec, hA]
    | none =>
      have : ∀ p, v ≠ enc p := by intro p h; rw [h, hdec] at hv; cases hv
      simp [after, hv, (hO v this).1]
  have hD' : ∀ v, ext ".tick_is_during_event" [v, .int t] = .ok (.bool (during v)) := by
    intro v
    cases hv : dec v with
    | some p => have := hdec' v p hv; subst this; simp [during, hdec, hD]
    | none =>
      have : ∀ p, v ≠ enc p := by intro p h; rw [h, hdec] at hv; cases hv
      simp [during, hv, (hO v this).2]
  have := spData_tie ext (.int t) (ps.map enc) start after during hA' hD'
  rw [spDataG_eq t enc after during (by intro p; simp [after, hdec]) (by intro p; simp [during, hdec])] at this
  exact this


end Chartparse.Tie
