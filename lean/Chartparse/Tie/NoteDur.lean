import Chartparse.Tie.Common
/-! `chartparse.tick.note_duration_to_ticks` is `round(resolution / value)` — the hand model's `noteDurationTicks`. -/
namespace Chartparse.Tie
open Chartparse Chartparse.Py Chartparse.F64

theorem noteDur_tie (r d : Int) (hr : 0 ≤ r) (hd : 0 < d) :
    evalBody [("resolution", .int r), ("note_duration.value", .int d)] Gen.Leaf.noteDurationToTicks =
      .ok (.int (noteDurationTicks r.toNat d.toNat)) := by
  have hrn := natCast_toNat r hr
  have hdn := natCast_toNat d (le_of_lt hd)
  have hd0 : d ≠ 0 := by omega
  have hq : (0 : Rat) ≤ (r : Rat) / (d : Rat) := by
    have : (0 : Rat) ≤ (r : Rat) := by exact_mod_cast hr
    have : (0 : Rat) < (d : Rat) := by exact_mod_cast hd
    positivity
  have e := fls_of_nonneg _ hq
  simp [Gen.Leaf.noteDurationToTicks, evalBody, evalExpr, lookup, evalBin, bind, Except.bind, hd0, e, noteDurationTicks, hrn, hdn]

end Chartparse.Tie
