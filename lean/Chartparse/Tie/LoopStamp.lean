import Chartparse.Gen.Imp
import Chartparse.Proofs.ImpRules
import Chartparse.Tie.LoopGlue
/-! The `from_parsed_data` of the event kinds that are stamped with a time — star-power phrases (`SpecialEvent`), track events, global
    events — and of anchors, as written in /repo today: each asks the tempo events for the time of *its datum's tick*, **starting at the
    index the previous event of its kind was stamped with (0 for the first)**, and constructs the event with that tick, that time, the
    datum's own payload and the index the query returned. This is the stamping `dataToEvents_code` (C11's chain) assumes of the callee. -/
namespace Chartparse.Tie
open Chartparse Chartparse.PyImp

/-- `prev_event._proximal_bpm_event_index if prev_event else 0` -/
def hintV (prev : Val) : M Val :=
  truth prev >>= fun t => if t then attrVal prev "_proximal_bpm_event_index" else .ok (.int 0)

/-- stamp a datum: the hinted query, then the constructor with the datum's payload `field` -/
def stampV (ext : Ext) (ctor field : String) (c data prev bpm : Val) : M Val :=
  (attrVal data "tick" >>= fun tk => hintV prev >>= fun h => ext TS [bpm, tk, h]) >>= fun r => unpack2 r >>= fun p =>
  attrVal data "tick" >>= fun tk => attrVal data field >>= fun v => ext ctor [c, tk, p.1, v, p.2]

theorem hint_expr (ext : Ext) (env : Env) (prev : Val) (hp : lookup env "prev_event" = .ok prev) :
    evalExpr ext env (.ifExp (.var "prev_event") (.attr (.var "prev_event") "_proximal_bpm_event_index") (.lit (.int 0))) = hintV prev := by
  simp only [evalExpr, hp, bind, Except.bind, hintV]

theorem stamp_tie (ext : Ext) (body : Stmt) (ctor field : String) (c data prev bpm : Val)
    (hbody : body =
      (.seq (.unpack ["timestamp", "proximal_bpm_event_index"] (.call ".timestamp_at_tick(start_iteration_index=)" (.econs (.var "bpm_events") (.econs (.attr (.var "data") "tick") (.econs (.ifExp (.var "prev_event") (.attr (.var "prev_event") "_proximal_bpm_event_index") (.lit (.int 0))) .enil)))))
       (.ret (.call ctor (.econs (.var "cls") (.econs (.attr (.var "data") "tick") (.econs (.var "timestamp") (.econs (.attr (.var "data") field) (.econs (.var "proximal_bpm_event_index") .enil))))))))) :
    Returns ext body
      [("cls", some c), ("data", some data), ("prev_event", some prev), ("bpm_events", some bpm), ("proximal_bpm_event_index", none), ("timestamp", none)]
      (stampV ext ctor field c data prev bpm) := by
  subst hbody
  unfold stampV
  refine Returns.unpack2_bind _ ?_ ?_
  · have hh := hint_expr ext [("cls", some c), ("data", some data), ("prev_event", some prev), ("bpm_events", some bpm), ("proximal_bpm_event_index", none), ("timestamp", none)]
      prev (by simp [lookup])
    generalize (Expr.ifExp (.var "prev_event") (.attr (.var "prev_event") "_proximal_bpm_event_index") (.lit (.int 0))) = E at hh ⊢
    simp only [evalExpr, hh, bind, Except.bind]
    simp [lookup, TS, Val.toList?]
    cases attrVal data "tick" with
    | error e => rfl
    | ok tk =>
      cases hintV prev with
      | error e => rfl
      | ok h => rfl
  intro ts idx
  refine Returns.ret_of _ ?_
  ev_simp
  cases attrVal data "tick" with
  | error e => rfl
  | ok tk =>
    cases attrVal data field with
    | error e => rfl
    | ok v => simp [Val.toList?]

theorem specialFromParsedData_tie (ext : Ext) (c data prev bpm : Val) :
    Returns ext Gen.Imp.specialFromParsedData
      (initEnv [("cls", c), ("data", data), ("prev_event", prev), ("bpm_events", bpm)] Gen.Imp.specialFromParsedDataLocals)
      (stampV ext "()(tick=,timestamp=,sustain=,_proximal_bpm_event_index=)" "sustain" c data prev bpm) := by
  have h0 : initEnv [("cls", c), ("data", data), ("prev_event", prev), ("bpm_events", bpm)] Gen.Imp.specialFromParsedDataLocals =
      [("cls", some c), ("data", some data), ("prev_event", some prev), ("bpm_events", some bpm), ("proximal_bpm_event_index", none), ("timestamp", none)] := by
    simp [initEnv, Gen.Imp.specialFromParsedDataLocals]
  rw [h0]
  exact stamp_tie ext _ _ _ c data prev bpm rfl

theorem trackEventFromParsedData_tie (ext : Ext) (c data prev bpm : Val) :
    Returns ext Gen.Imp.trackEventFromParsedData
      (initEnv [("cls", c), ("data", data), ("prev_event", prev), ("bpm_events", bpm)] Gen.Imp.trackEventFromParsedDataLocals)
      (stampV ext "()(tick=,timestamp=,value=,_proximal_bpm_event_index=)" "value" c data prev bpm) := by
  have h0 : initEnv [("cls", c), ("data", data), ("prev_event", prev), ("bpm_events", bpm)] Gen.Imp.trackEventFromParsedDataLocals =
      [("cls", some c), ("data", some data), ("prev_event", some prev), ("bpm_events", some bpm), ("proximal_bpm_event_index", none), ("timestamp", none)] := by
    simp [initEnv, Gen.Imp.trackEventFromParsedDataLocals]
  rw [h0]
  exact stamp_tie ext _ _ _ c data prev bpm rfl

theorem globalEventFromParsedData_tie (ext : Ext) (c data prev bpm : Val) :
    Returns ext Gen.Imp.globalEventFromParsedData
      (initEnv [("cls", c), ("data", data), ("prev_event", prev), ("bpm_events", bpm)] Gen.Imp.globalEventFromParsedDataLocals)
      (stampV ext "()(tick=,timestamp=,value=,_proximal_bpm_event_index=)" "value" c data prev bpm) := by
  have h0 : initEnv [("cls", c), ("data", data), ("prev_event", prev), ("bpm_events", bpm)] Gen.Imp.globalEventFromParsedDataLocals =
      [("cls", some c), ("data", some data), ("prev_event", some prev), ("bpm_events", some bpm), ("proximal_bpm_event_index", none), ("timestamp", none)] := by
    simp [initEnv, Gen.Imp.globalEventFromParsedDataLocals]
  rw [h0]
  exact stamp_tie ext _ _ _ c data prev bpm rfl

/-- `AnchorEvent.from_parsed_data`: the anchor's own microseconds, no tempo map involved -/
def anchorV (ext : Ext) (c data : Val) : M Val :=
  (attrVal data "microseconds" >>= fun us => ext "timedelta(microseconds=)" [us]) >>= fun ts =>
  attrVal data "tick" >>= fun tk => ext "()(tick=,timestamp=)" [c, tk, ts]

theorem anchorFromParsedData_tie (ext : Ext) (c data : Val) :
    Returns ext Gen.Imp.anchorFromParsedData (initEnv [("cls", c), ("data", data)] Gen.Imp.anchorFromParsedDataLocals) (anchorV ext c data) := by
  have h0 : initEnv [("cls", c), ("data", data)] Gen.Imp.anchorFromParsedDataLocals = [("cls", some c), ("data", some data), ("timestamp", none)] := by
    simp [initEnv, Gen.Imp.anchorFromParsedDataLocals]
  rw [h0]
  unfold Gen.Imp.anchorFromParsedData anchorV
  refine Returns.assign_bind _ ?_ ?_
  · ev_simp
    cases attrVal data "microseconds" <;> simp [Val.toList?]
  intro ts _
  refine Returns.ret_of _ ?_
  ev_simp
  cases attrVal data "tick" <;> simp [Val.toList?]

/-! ### time signatures: the denominator is two to the written exponent, four when none is written -/

/-- `2**data.lower if data.lower is not None else cls._default_lower_numeral` -/
def lowerV (data : Val) : M Val :=
  attrVal data "lower" >>= fun lo => if lo == .none then .ok (.int 4) else evalBin .pow (.int 2) lo

def CTS : String := "()(tick=,timestamp=,upper_numeral=,lower_numeral=,_proximal_bpm_event_index=)"

def tsStampV (ext : Ext) (c data prev bpm : Val) : M Val :=
  lowerV data >>= fun ln =>
  (attrVal data "tick" >>= fun tk => hintV prev >>= fun h => ext TS [bpm, tk, h]) >>= fun r => unpack2 r >>= fun p =>
  attrVal data "tick" >>= fun tk => attrVal data "upper" >>= fun up => ext CTS [c, tk, p.1, up, ln, p.2]

theorem timeSignatureFromParsedData_tie (ext : Ext) (c data prev bpm : Val) :
    Returns ext Gen.Imp.timeSignatureFromParsedData
      (initEnv [("cls", c), ("data", data), ("prev_event", prev), ("bpm_events", bpm)] Gen.Imp.timeSignatureFromParsedDataLocals)
      (tsStampV ext c data prev bpm) := by
  have h0 : initEnv [("cls", c), ("data", data), ("prev_event", prev), ("bpm_events", bpm)] Gen.Imp.timeSignatureFromParsedDataLocals =
      [("cls", some c), ("data", some data), ("prev_event", some prev), ("bpm_events", some bpm), ("lower_numeral", none),
       ("proximal_bpm_event_index", none), ("timestamp", none)] := by
    simp [initEnv, Gen.Imp.timeSignatureFromParsedDataLocals]
  rw [h0]
  unfold Gen.Imp.timeSignatureFromParsedData tsStampV
  refine Returns.assign_bind _ ?_ ?_
  · unfold lowerV
    simp only [evalExpr, bind, Except.bind]
    simp [lookup]
    cases attrVal data "lower" with
    | error e => rfl
    | ok lo =>
      by_cases h : lo = Val.none
      · subst h; simp
      · have h' : (lo == Val.none) = false := by simpa using h
        simp [h']
        intro hc; exact absurd hc h
  intro ln _
  refine Returns.unpack2_bind _ ?_ ?_
  · have hh := hint_expr ext (setVar [("cls", some c), ("data", some data), ("prev_event", some prev), ("bpm_events", some bpm), ("lower_numeral", none),
       ("proximal_bpm_event_index", none), ("timestamp", none)] "lower_numeral" ln) prev (by simp [lookup, setVar])
    generalize (Expr.ifExp (.var "prev_event") (.attr (.var "prev_event") "_proximal_bpm_event_index") (.lit (.int 0))) = E at hh ⊢
    simp only [evalExpr, hh, bind, Except.bind]
    simp [lookup, setVar, TS]
    cases attrVal data "tick" with
    | error e => rfl
    | ok tk =>
      cases hintV prev with
      | error e => rfl
      | ok h => rfl
  intro ts idx
  refine Returns.ret_of _ ?_
  ev_simp
  cases attrVal data "tick" with
  | error e => rfl
  | ok tk =>
    cases attrVal data "upper" with
    | error e => rfl
    | ok v => simp [Val.toList?, CTS]

end Chartparse.Tie
