import Chartparse.Tie.LoopEvents
import Chartparse.Model.Instrument
/-! What the loop ties say about the hand model (`Model/Instrument.lean`, `Model/Tempo.lean`): the fold the dumped code was
    proved equal to *is* the model's function once values are read through their encodings — so the property theorems about that
    model function are statements about the loop as written in /repo today. -/
namespace Chartparse.Tie
open Chartparse Chartparse.PyImp Chartparse.Inst Chartparse.Tempo

/-! ### event chains: `foldPrev` is `Tempo.chain` -/

theorem foldPrev_chain (res : Int) (evs : List BpmEv) (encT : Nat → Val) (encR : Nat → Int × Nat → Val) (hint : Val → Nat)
    (step : Val → Val → M Val)
    (hstep : ∀ t pv, step (encT t) pv = (tsAt res evs t (hint pv)).map (encR t))
    (hh : ∀ t r, hint (encR t r) = r.2) :
    ∀ (ticks : List Nat) (acc : List Val),
      foldPrev step (ticks.map encT) acc =
        (chain res evs ticks (hint (lastOr acc))).map fun rs => acc ++ (ticks.zip rs).map fun p => encR p.1 p.2 := by
  intro ticks
  induction ticks with
  | nil => intro acc; simp [foldPrev, chain, Except.map]
  | cons t ts ih =>
    intro acc
    simp only [List.map_cons, foldPrev, chain, hstep, bind, Except.bind]
    cases hr : tsAt res evs (t : Int) (hint (lastOr acc)) with
    | error e => simp [Except.map]
    | ok r =>
      simp only [Except.map]
      rw [ih (acc ++ [encR t r]), lastOr_append, hh]
      cases hc : chain res evs ts r.2 with
      | error e => simp [Except.map]
      | ok rest => simp [Except.map]

/-- **the dumped `data_to_events` builds the model's `chain`**: when an event type's `from_parsed_data` stamps a datum with the
    hinted query started at the previous event's index (`prev_event._proximal_bpm_event_index if prev_event else 0`), the list the
    loop returns is, event by event, `Tempo.chain` of the data's ticks — the function C11's chain theorems are about -/
theorem dataToEvents_code (ext : Ext) (ty bpm : Val) (res : Int) (evs : List BpmEv) (encT : Nat → Val) (encR : Nat → Int × Nat → Val)
    (hint : Val → Nat) (h0 : hint .none = 0)
    (hstep : ∀ t pv, ext ".from_parsed_data" [ty, encT t, pv, bpm] = (tsAt res evs t (hint pv)).map (encR t))
    (hh : ∀ t r, hint (encR t r) = r.2) (ticks : List Nat) :
    Returns ext Gen.Imp.dataToEvents
      (initEnv [("event_type", ty), ("datas", .list (Val.ofList (ticks.map encT))), ("bpm_events", bpm)] Gen.Imp.dataToEventsLocals)
      ((chain res evs ticks 0).map fun rs => .list (Val.ofList ((ticks.zip rs).map fun p => encR p.1 p.2))) := by
  have := dataToEvents_tie ext ty bpm (ticks.map encT)
  have hf : ∀ t pv, (fun d p => ext ".from_parsed_data" [ty, d, p, bpm]) (encT t) pv = (tsAt res evs t (hint pv)).map (encR t) := hstep
  rw [foldPrev_chain res evs encT encR hint _ hf hh ticks []] at this
  simp only [lastOr, List.getLast?_nil, Option.getD_none, h0, List.nil_append] at this
  cases hc : chain res evs ticks 0 with
  | error e => rw [hc] at this; exact this
  | ok rs => rw [hc] at this; exact this


end Chartparse.Tie
