import Chartparse.Gen.Imp
import Chartparse.Proofs.ImpRules
/-! `track.parse_data_from_chart_lines` as written in /repo today — for every line the types are tried in the given order, a type whose
    `from_chart_line` raises `RegexNotMatchError` is passed over (`continue`), the first other one gets the datum appended to its own
    list (`break`), and a line no type takes is reported once (`for … else`) — is, for all types, lines and decoders, the fold that
    files each line under the first type that decodes it and counts the lines nobody decodes. -/
namespace Chartparse.Tie
open Chartparse Chartparse.PyImp

/-- the map from types to their data, entries in the order the types first got a datum -/
abbrev AMap := List (Val × List Val)

def encM (m : AMap) : Val := .list (Val.ofList (m.map fun kv => .tup (.cons kv.1 (.cons (.list (Val.ofList kv.2)) .nil))))

def insertAt : AMap → Val → Val → AMap
  | [], k, v => [(k, [v])]
  | (k', l) :: rest, k, v => if k' == k then (k', l ++ [v]) :: rest else (k', l) :: insertAt rest k v

theorem appendAt_go (k v : Val) : ∀ m : AMap,
    appendAtVal.go k v (m.map fun kv => .tup (.cons kv.1 (.cons (.list (Val.ofList kv.2)) .nil))) =
      some ((insertAt m k v).map fun kv => .tup (.cons kv.1 (.cons (.list (Val.ofList kv.2)) .nil))) := by
  intro m
  induction m with
  | nil => simp [appendAtVal.go, insertAt, Val.ofList]
  | cons kv rest ih =>
    obtain ⟨k', l⟩ := kv
    simp only [List.map_cons, appendAtVal.go, insertAt]
    by_cases h : (k' == k) = true
    · simp [h]
    · simp [h, ih]

theorem appendAtVal_enc (m : AMap) (k v : Val) : appendAtVal (encM m) k v = .ok (encM (insertAt m k v)) := by
  simp [appendAtVal, encM, appendAt_go]

/-- the first type that decodes the line -/
def classifyV (dec : Val → Val → Option Val) : List Val → Val → Option (Val × Val)
  | [], _ => none
  | t :: ts, l => match dec t l with
    | some d => some (t, d)
    | none => classifyV dec ts l

/-- all lines in turn: the map and the number of lines nobody decoded -/
def dispatchV (dec : Val → Val → Option Val) (ts : List Val) : List Val → AMap → Nat → AMap × Nat
  | [], m, w => (m, w)
  | l :: ls, m, w => match classifyV dec ts l with
    | some (t, d) => dispatchV dec ts ls (insertAt m t d) w
    | none => dispatchV dec ts ls m (w + 1)

def dEnv (T L : Val) (data line : Option Val) (m : AMap) (t : Option Val) (w : Nat) : Env :=
  [("types", some T), ("lines", some L), ("data", data), ("line", line), ("m", some (encM m)), ("t", t),
   ("$log", some (.list (Val.ofList (List.replicate w Val.none))))]

def innerBodyD : Stmt :=
 (.seq (.tryExcept (.assign "data" (.call ".from_chart_line" (.econs (.var "t") (.econs (.var "line") .enil)))) .regexNotMatch .cont)
 (.seq (.appendAt "m" (.var "t") (.var "data")) .brk))

theorem replicate_snoc (w : Nat) : List.replicate w Val.none ++ [Val.none] = List.replicate (w + 1) Val.none := by
  rw [List.replicate_succ']

/-- the types still to try for one line -/
theorem typesLoop (ext : Ext) (dec : Val → Val → Option Val)
    (hext : ∀ t l, ext ".from_chart_line" [t, l] = match dec t l with | some d => .ok d | none => .error .regexNotMatch)
    (T L l : Val) :
    ∀ (ts : List Val) (data t : Option Val) (m : AMap) (w : Nat),
      ∃ data' t', Runs ext (.forVals "t" (Val.ofList ts) innerBodyD (.warn (.lit .none))) (dEnv T L data (some l) m t w)
        (match classifyV dec ts l with
         | some (ty, d) => .norm (dEnv T L (some d) (some l) (insertAt m ty d) (some ty) w)
         | none => .norm (dEnv T L data' (some l) m t' (w + 1))) := by
  intro ts
  induction ts with
  | nil =>
    intro data t m w
    refine ⟨data, t, ?_⟩
    simp only [classifyV, Val.ofList]
    refine Runs.forVals_nil ?_
    have := Runs.warn (ext := ext) (e := .lit .none) (env := dEnv T L data (some l) m t w)
      (nl := .list (Val.ofList (List.replicate (w + 1) Val.none)))
      (by simp [dEnv, lookup, evalExpr, bind, Except.bind, appendVal, replicate_snoc])
    simpa [dEnv, setVar] using this
  | cons ty ts ih =>
    intro data t m w
    have hset : setVar (dEnv T L data (some l) m t w) "t" ty = dEnv T L data (some l) m (some ty) w := by simp [dEnv, setVar]
    have hcall : evalExpr ext (dEnv T L data (some l) m (some ty) w)
        (.call ".from_chart_line" (.econs (.var "t") (.econs (.var "line") .enil))) = ext ".from_chart_line" [ty, l] := by
      simp [evalExpr, dEnv, lookup, bind, Except.bind, Val.toList?]
    simp only [classifyV, Val.ofList]
    cases hd : dec ty l with
    | none =>
      have he := hext ty l
      rw [hd] at he
      have hb : Runs ext innerBodyD (dEnv T L data (some l) m (some ty) w) (.cont (dEnv T L data (some l) m (some ty) w)) :=
        Runs.seq_stop (Runs.try_catch (Runs.assign_err (by rw [hcall, he])) (Runs.cont _ _)) (by intro e; simp)
      obtain ⟨data', t', h2⟩ := ih data (some ty) m w
      exact ⟨data', t', Runs.forVals_step (Or.inr (by rw [hset]; exact hb)) h2⟩
    | some d =>
      have he := hext ty l
      rw [hd] at he
      refine ⟨data, t, ?_⟩
      have h1 : Runs ext (.tryExcept (.assign "data" (.call ".from_chart_line" (.econs (.var "t") (.econs (.var "line") .enil)))) .regexNotMatch .cont)
          (dEnv T L data (some l) m (some ty) w) (.norm (dEnv T L (some d) (some l) m (some ty) w)) := by
        refine Runs.try_pass ?_ (by intro e env' h; simp at h)
        have := Runs.assign (ext := ext) (x := "data") (v := d) (env := dEnv T L data (some l) m (some ty) w) (by rw [hcall, he])
        simpa [dEnv, setVar] using this
      have h2 : Runs ext (.appendAt "m" (.var "t") (.var "data")) (dEnv T L (some d) (some l) m (some ty) w)
          (.norm (dEnv T L (some d) (some l) (insertAt m ty d) (some ty) w)) := by
        refine runs_of_exec 2 fun k => ?_
        simp [exec, dEnv, lookup, evalExpr, bind, Except.bind, appendAtVal_enc, setVar]
      exact Runs.forVals_break (by rw [hset]; exact Runs.seq h1 (Runs.seq h2 (Runs.brk _ _)))

def outerBodyD : Stmt := (.forIn "t" (.var "types") innerBodyD (.warn (.lit .none)))

theorem linesLoop (ext : Ext) (dec : Val → Val → Option Val)
    (hext : ∀ t l, ext ".from_chart_line" [t, l] = match dec t l with | some d => .ok d | none => .error .regexNotMatch)
    (ts : List Val) (L : Val) :
    ∀ (ls : List Val) (data line t : Option Val) (m : AMap) (w : Nat),
      ∃ data' line' t', Runs ext (.forVals "line" (Val.ofList ls) outerBodyD .skip) (dEnv (.tup (Val.ofList ts)) L data line m t w)
        (.norm (dEnv (.tup (Val.ofList ts)) L data' line' (dispatchV dec ts ls m w).1 t' (dispatchV dec ts ls m w).2)) := by
  intro ls
  induction ls with
  | nil =>
    intro data line t m w
    exact ⟨data, line, t, by simpa [dispatchV, Val.ofList] using Runs.forVals_nil (Runs.skip ext _)⟩
  | cons l ls ih =>
    intro data line t m w
    have hset : setVar (dEnv (.tup (Val.ofList ts)) L data line m t w) "line" l = dEnv (.tup (Val.ofList ts)) L data (some l) m t w := by
      simp [dEnv, setVar]
    obtain ⟨data1, t1, h1⟩ := typesLoop ext dec hext (.tup (Val.ofList ts)) L l ts data t m w
    have hin : ∀ r, Runs ext (.forVals "t" (Val.ofList ts) innerBodyD (.warn (.lit .none))) (dEnv (.tup (Val.ofList ts)) L data (some l) m t w) r →
        Runs ext outerBodyD (dEnv (.tup (Val.ofList ts)) L data (some l) m t w) r := by
      intro r ⟨N, h⟩
      refine runs_intro (N + 1) fun k hk => ?_
      simp [outerBodyD, exec, evalExpr, dEnv, lookup, h k (by omega)]
      exact h k (by omega)
    simp only [dispatchV, Val.ofList]
    cases hc : classifyV dec ts l with
    | none =>
      rw [hc] at h1
      obtain ⟨data', line', t', h2⟩ := ih data1 (some l) t1 m (w + 1)
      exact ⟨data', line', t', Runs.forVals_step (Or.inl (by rw [hset]; exact hin _ h1)) h2⟩
    | some td =>
      obtain ⟨ty, d⟩ := td
      rw [hc] at h1
      obtain ⟨data', line', t', h2⟩ := ih (some d) (some l) (some ty) (insertAt m ty d) w
      exact ⟨data', line', t', Runs.forVals_step (Or.inl (by rw [hset]; exact hin _ h1)) h2⟩

/-- **`parse_data_from_chart_lines` files every line under the first type that decodes it** — the returned map, for all types, lines
    and decoders; `dispatchV`'s second component is the number of warnings the call logs (proved about the state before the `return`) -/
theorem parseData_tie (ext : Ext) (dec : Val → Val → Option Val)
    (hext : ∀ t l, ext ".from_chart_line" [t, l] = match dec t l with | some d => .ok d | none => .error .regexNotMatch)
    (ts ls : List Val) :
    Returns ext Gen.Imp.parseDataFromChartLines
      (initEnv [("types", .tup (Val.ofList ts)), ("lines", .list (Val.ofList ls))] Gen.Imp.parseDataFromChartLinesLocals)
      (.ok (encM (dispatchV dec ts ls [] 0).1)) := by
  have h0 : initEnv [("types", .tup (Val.ofList ts)), ("lines", .list (Val.ofList ls))] Gen.Imp.parseDataFromChartLinesLocals
      = [("types", some (.tup (Val.ofList ts))), ("lines", some (.list (Val.ofList ls))), ("data", none), ("line", none), ("m", none), ("t", none), ("$log", none)] := by
    simp [initEnv, Gen.Imp.parseDataFromChartLinesLocals]
  rw [h0]
  have e1 : Runs ext (.assign "$log" (.mkList .enil))
      [("types", some (.tup (Val.ofList ts))), ("lines", some (.list (Val.ofList ls))), ("data", none), ("line", none), ("m", none), ("t", none), ("$log", none)]
      (.norm [("types", some (.tup (Val.ofList ts))), ("lines", some (.list (Val.ofList ls))), ("data", none), ("line", none), ("m", none), ("t", none),
        ("$log", some (.list .nil))]) := by
    have := Runs.assign (ext := ext) (x := "$log") (e := .mkList .enil) (v := .list .nil)
      (env := [("types", some (.tup (Val.ofList ts))), ("lines", some (.list (Val.ofList ls))), ("data", none), ("line", none), ("m", none), ("t", none), ("$log", none)])
      (by simp [evalExpr, bind, Except.bind])
    simpa [setVar] using this
  have e2 : Runs ext (.assign "m" (.lit (.list .nil)))
      [("types", some (.tup (Val.ofList ts))), ("lines", some (.list (Val.ofList ls))), ("data", none), ("line", none), ("m", none), ("t", none),
        ("$log", some (.list .nil))]
      (.norm (dEnv (.tup (Val.ofList ts)) (.list (Val.ofList ls)) none none [] none 0)) := by
    have := Runs.assign (ext := ext) (x := "m") (e := .lit (.list .nil)) (v := .list .nil)
      (env := [("types", some (.tup (Val.ofList ts))), ("lines", some (.list (Val.ofList ls))), ("data", none), ("line", none), ("m", none), ("t", none),
        ("$log", some (.list .nil))]) (by simp [evalExpr])
    simpa [setVar, dEnv, encM, Val.ofList] using this
  obtain ⟨data', line', t', hl⟩ := linesLoop ext dec hext ts (.list (Val.ofList ls)) ls none none none [] 0
  have hfor := Runs.forIn_list (ext := ext) (v := "line") (e := .var "lines") (b := outerBodyD) (orelse := .skip)
    (env := dEnv (.tup (Val.ofList ts)) (.list (Val.ofList ls)) none none [] none 0) (sp := Val.ofList ls) (by simp [evalExpr, dEnv, lookup]) hl
  unfold Gen.Imp.parseDataFromChartLines
  exact Or.inl (Runs.seq e1 (Runs.seq e2 (Runs.seq hfor (Runs.ret (by simp [evalExpr, dEnv, lookup])))))

end Chartparse.Tie
