import Chartparse.Proofs.DispatchProofs
import Chartparse.Proofs.ReDisjoint
/-! Property theorems of C14 (statements only; helper lemmas live in `Proofs/`). -/
namespace Chartparse.Props.C14
open Chartparse Chartparse.Dsp

/-- conservation: every line is claimed exactly once or reported exactly once -/
theorem C14_conserve :
    ∀ {σ δ} (kinds : List (Kind σ δ)) (lines : List σ),
    dataCount (parseData kinds lines) + (warnings (parseData kinds lines)).length = lines.length :=
  @Chartparse.Dsp.conserve

/-- locality: an unparsable line anywhere changes no kind's data and adds exactly one warning -/
theorem C14_local :
    ∀ {σ δ} (kinds : List (Kind σ δ)) (l1 l2 : List σ) (g : σ)
    (hg : classify kinds g 0 = none) (k : Nat),
    dataOf (parseData kinds (l1 ++ g :: l2)) k = dataOf (parseData kinds (l1 ++ l2)) k ∧
    (warnings (parseData kinds (l1 ++ g :: l2))).length = (warnings (parseData kinds (l1 ++ l2))).length + 1 :=
  @Chartparse.Dsp.local_garbage

/-- if at most one kind accepts any line, the order in which kinds are tried is irrelevant for the datum -/
theorem C14_order_free :
    ∀ {σ δ} (kinds : List (Kind σ δ)) (line : σ) (i j : Nat) (d : δ)
    (hdisj : ∀ (a b : Nat) (ka kb : Kind σ δ), kinds[a]? = some ka → kinds[b]? = some kb →
      (ka line).isSome → (kb line).isSome → a = b)
    (hj : ∃ kj, kinds[j]? = some kj ∧ kj line = some d),
    classify kinds line i = some (i + j, d) :=
  @Chartparse.Dsp.classify_unique

open Chartparse.Rx in
/-- obligations: the six recognisers of the sync and instrument sections have the `evRe` normal forms -/
theorem gen_forms :
    Gen.noteRe.norm = noteEv.norm ∧ Gen.spRe.norm = spT.norm ∧ Gen.teRe.norm = teEv.norm ∧
    Gen.bpmRe.norm = bpmT.norm ∧ Gen.tsRe.norm = tsEv.norm ∧ Gen.anchorRe.norm = anchorT.norm := by decide

/-- obligations: kind orders as recorded from a real parse -/
theorem gen_kind_orders : Gen.instrumentKindOrder = [0, 1, 2] ∧ Gen.syncKindOrder = [3, 4, 5] := by decide

open Chartparse.Rx in
/-- C14, pairwise disjointness in the instrument section, for ALL strings: at most one of the shipped N / S / E
    recognisers accepts a given string (their literals start with different letters) -/
theorem C14_disjoint_instrument (s : Str) (c c' : Caps) :
    ¬ (Gen.noteRe.matchGroups s = some c ∧ Gen.spRe.matchGroups s = some c') ∧
    ¬ (Gen.noteRe.matchGroups s = some c ∧ Gen.teRe.matchGroups s = some c') ∧
    ¬ (Gen.spRe.matchGroups s = some c ∧ Gen.teRe.matchGroups s = some c') := by
  obtain ⟨hn, hs, ht, _, _, _⟩ := gen_forms
  refine ⟨?_, ?_, ?_⟩
  · rintro ⟨h, h'⟩
    rw [matchGroups_of_norm_eq hn] at h; rw [matchGroups_of_norm_eq hs] at h'
    exact ev_disjoint 78 83 _ _ _ _ s c c' (by decide) h h'
  · rintro ⟨h, h'⟩
    rw [matchGroups_of_norm_eq hn] at h; rw [matchGroups_of_norm_eq ht] at h'
    exact ev_disjoint 78 69 _ _ _ _ s c c' (by decide) h h'
  · rintro ⟨h, h'⟩
    rw [matchGroups_of_norm_eq hs] at h; rw [matchGroups_of_norm_eq ht] at h'
    exact ev_disjoint 83 69 _ _ _ _ s c c' (by decide) h h'

open Chartparse.Rx in
/-- C14, pairwise disjointness in the sync section, for ALL strings (B / TS / A) -/
theorem C14_disjoint_sync (s : Str) (c c' : Caps) :
    ¬ (Gen.bpmRe.matchGroups s = some c ∧ Gen.tsRe.matchGroups s = some c') ∧
    ¬ (Gen.bpmRe.matchGroups s = some c ∧ Gen.anchorRe.matchGroups s = some c') ∧
    ¬ (Gen.tsRe.matchGroups s = some c ∧ Gen.anchorRe.matchGroups s = some c') := by
  obtain ⟨_, _, _, hb, ht, ha⟩ := gen_forms
  refine ⟨?_, ?_, ?_⟩
  · rintro ⟨h, h'⟩
    rw [matchGroups_of_norm_eq hb] at h; rw [matchGroups_of_norm_eq ht] at h'
    exact ev_disjoint 66 84 _ _ _ _ s c c' (by decide) h h'
  · rintro ⟨h, h'⟩
    rw [matchGroups_of_norm_eq hb] at h; rw [matchGroups_of_norm_eq ha] at h'
    exact ev_disjoint 66 65 _ _ _ _ s c c' (by decide) h h'
  · rintro ⟨h, h'⟩
    rw [matchGroups_of_norm_eq ht] at h; rw [matchGroups_of_norm_eq ha] at h'
    exact ev_disjoint 84 65 _ _ _ _ s c c' (by decide) h h'

/-- C14 instantiated on the model's dispatcher: conservation for every section body and every kind order -/
theorem C14_conserve_model (order : List Nat) (lines : List Str) :
    dataCount (dispatch order lines) + (warnings (dispatch order lines)).length = lines.length :=
  Chartparse.Dsp.conserve _ lines

/-- non-vacuity: a section with one datum of each instrument kind and two unparsable lines -/
example : dataCount (dispatch [0, 1, 2] [cp "0 = N 0 0", cp "junk", cp "0 = S 2 5", cp "0 = S 64 5", cp "3 = E solo"]) = 3 ∧
    (warnings (dispatch [0, 1, 2] [cp "0 = N 0 0", cp "junk", cp "0 = S 2 5", cp "0 = S 64 5", cp "3 = E solo"])).length = 2 := by
  decide

end Chartparse.Props.C14
