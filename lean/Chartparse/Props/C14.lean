import Chartparse.Proofs.DispatchProofs
/-! Property theorems of C14 (statements only; helper lemmas live in `Proofs/`). -/
namespace Chartparse.Props.C14
open Chartparse Chartparse.Dsp

/-- conservation: every line is claimed exactly once or reported exactly once -/
theorem C14_conserve :
    ∀ {σ δ} (kinds : List (Kind σ δ)) (lines : List σ),
    dataCount (parseData kinds lines) + (warnings (parseData kinds lines)).length = lines.length :=
  @Chartparse.Dsp.conserve

/-- locality: an unparsable line anywhere changes no kind's data and adds exactly one warning -/
theorem C14_local :
    ∀ {σ δ} (kinds : List (Kind σ δ)) (l1 l2 : List σ) (g : σ)
    (hg : classify kinds g 0 = none) (k : Nat),
    dataOf (parseData kinds (l1 ++ g :: l2)) k = dataOf (parseData kinds (l1 ++ l2)) k ∧
    (warnings (parseData kinds (l1 ++ g :: l2))).length = (warnings (parseData kinds (l1 ++ l2))).length + 1 :=
  @Chartparse.Dsp.local_garbage

/-- if at most one kind accepts any line, the order in which kinds are tried is irrelevant for the datum -/
theorem C14_order_free :
    ∀ {σ δ} (kinds : List (Kind σ δ)) (line : σ) (i j : Nat) (d : δ)
    (hdisj : ∀ (a b : Nat) (ka kb : Kind σ δ), kinds[a]? = some ka → kinds[b]? = some kb →
      (ka line).isSome → (kb line).isSome → a = b)
    (hj : ∃ kj, kinds[j]? = some kj ∧ kj line = some d),
    classify kinds line i = some (i + j, d) :=
  @Chartparse.Dsp.classify_unique

end Chartparse.Props.C14
