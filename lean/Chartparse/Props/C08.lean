import Chartparse.Proofs.ReSound
import Chartparse.Proofs.Round
import Chartparse.Proofs.ReTS
import Chartparse.Proofs.ReNorm
import Chartparse.Model.Chart
import Chartparse.Proofs.ReLine
/-! Property theorems of C08 (statements only; helper lemmas live in `Proofs/`). -/
namespace Chartparse.Props.C08
open Chartparse Chartparse.Rx Chartparse.F64

/-- C08 after the fix: every positive integer `n < 2^52` decodes to a float that passes the validation -/
theorem validBpm_nearest :
    ∀ (n : Nat) (hn : 1 ≤ n) (hlt : n < 4503599627370496),
    validBpm (fl ((n : Rat) / 1000)) = true :=
  @Chartparse.F64.validBpm_nearest

/-- accepted values are exactly the nearest floats: if the validation passes and the value is within
    half a thousandth of `n/1000`, it *is* `fl (n/1000)` -/
theorem validBpm_exact :
    ∀ (x : Rat) (n : Nat) (hv : validBpm x = true) (hc : |1000 * x - (n : Rat)| < 1/2),
    x = fl ((n : Rat) / 1000) :=
  @Chartparse.F64.validBpm_exact

/-- C08: `<tick> = TS <u>` (no third number): two captures, the optional group stays unset -/
theorem ts_accept2 :
    ∀ (p t u q : Str) (hp : AllIn .space p) (ht : AllIn .digit t) (ht0 : t ≠ [])
    (hu : AllIn .digit u) (hu0 : u ≠ []) (hq : AllIn .space q),
    tsRe.matchGroups (p ++ (t ++ ([32, 61, 32, 84, 83, 32] ++ (u ++ q)))) = some [(2, u), (1, t)] :=
  @Chartparse.Rx.ts_accept2

/-- C08: `<tick> = TS <u> <l>`: three captures -/
theorem ts_accept3 :
    ∀ (p t u l q : Str) (hp : AllIn .space p) (ht : AllIn .digit t) (ht0 : t ≠ [])
    (hu : AllIn .digit u) (hu0 : u ≠ []) (hl : AllIn .digit l) (hl0 : l ≠ []) (hq : AllIn .space q),
    tsRe.matchGroups (p ++ (t ++ ([32, 61, 32, 84, 83, 32] ++ (u ++ (32 :: (l ++ q))))))
      = some [(3, l), (2, u), (1, t)] :=
  @Chartparse.Rx.ts_accept3

/-- C08, decode + validation composed on the model's own decode: every `n` in `1 ≤ n < 2^52` is accepted
    and its tempo is the float nearest `n/1000` -/
theorem C08_bpm (n : Nat) (hn : 1 ≤ n) (hlt : n < 4503599627370496) :
    Tempo.decodeBpm n = fl ((n : Rat) / 1000) ∧ validBpm (Tempo.decodeBpm n) = true :=
  ⟨rfl, Chartparse.F64.validBpm_nearest n hn hlt⟩

/-- the decode as originally shipped (two roundings) is *not* the nearest float at `n = 1118`: the defect
    repaired by the `fix:` commit, witnessed by kernel evaluation -/
theorem shipped_decode_defect : Tempo.decodeBpmShipped 1118 ≠ fl ((1118 : Rat) / 1000) := by decide +kernel

/-- … and the shipped value fails the three-decimal validation, i.e. `0 = B 1118` was rejected -/
theorem shipped_decode_rejected : validBpm (Tempo.decodeBpmShipped 1118) = false := by decide +kernel

/-- C08, lower numeral: absent ⇒ 4 (the regenerated default), present ⇒ `2^l` -/
theorem C08_ts_lower : lowerOf none = 4 ∧ ∀ l, lowerOf (some l) = 2 ^ l := ⟨by decide, fun _ => rfl⟩

/-- obligation: the regenerated TS recogniser has the normal form of the template the theorems are about -/
theorem gen_ts_is_template : Gen.tsRe.norm = tsRe.norm := by decide

/-- transport: the theorems above hold for the recogniser the code ships -/
theorem gen_ts_accept2 (p t u q : Str) (hp : AllIn .space p) (ht : AllIn .digit t) (ht0 : t ≠ [])
    (hu : AllIn .digit u) (hu0 : u ≠ []) (hq : AllIn .space q) :
    Gen.tsRe.matchGroups (p ++ (t ++ ([32, 61, 32, 84, 83, 32] ++ (u ++ q)))) = some [(2, u), (1, t)] := by
  rw [matchGroups_of_norm_eq gen_ts_is_template]; exact Chartparse.Rx.ts_accept2 p t u q hp ht ht0 hu hu0 hq

theorem gen_ts_accept3 (p t u l q : Str) (hp : AllIn .space p) (ht : AllIn .digit t) (ht0 : t ≠ [])
    (hu : AllIn .digit u) (hu0 : u ≠ []) (hl : AllIn .digit l) (hl0 : l ≠ []) (hq : AllIn .space q) :
    Gen.tsRe.matchGroups (p ++ (t ++ ([32, 61, 32, 84, 83, 32] ++ (u ++ (32 :: (l ++ q))))))
      = some [(3, l), (2, u), (1, t)] := by
  rw [matchGroups_of_norm_eq gen_ts_is_template]; exact Chartparse.Rx.ts_accept3 p t u l q hp ht ht0 hu hu0 hl hl0 hq

theorem gen_bpm_is_template : Gen.bpmRe.norm = bpmT.norm := by decide
theorem gen_anchor_is_template : Gen.anchorRe.norm = anchorT.norm := by decide

/-- C08: every `<tick> = B <n>` line is accepted with the raw digit strings as written -/
theorem C08_bpm_accept (p t l q : Str) (hp : AllIn .space p) (ht : AllIn .digit t) (ht0 : t ≠ [])
    (hl : AllIn .digit l) (hl0 : l ≠ []) (hq : AllIn .space q) :
    Gen.bpmRe.matchGroups (p ++ (t ++ ([32, 61, 32, 66, 32] ++ (l ++ q)))) = some [(2, l), (1, t)] := by
  rw [matchGroups_of_norm_eq gen_bpm_is_template]; exact Chartparse.Rx.bpm_accept p t l q hp ht ht0 hl hl0 hq

/-- C08: every `<tick> = A <us>` line (no trailing blanks: the shipped pattern ends in `$`) is accepted -/
theorem C08_anchor_accept (p t l : Str) (hp : AllIn .space p) (ht : AllIn .digit t) (ht0 : t ≠ [])
    (hl : AllIn .digit l) (hl0 : l ≠ []) :
    Gen.anchorRe.matchGroups (p ++ (t ++ ([32, 61, 32, 65, 32] ++ l))) = some [(2, l), (1, t)] := by
  rw [matchGroups_of_norm_eq gen_anchor_is_template]; exact Chartparse.Rx.anchor_accept p t l hp ht ht0 hl hl0

/-- non-vacuity: a concrete TS line with exotic padding and Arabic-Indic digits -/
example : Gen.tsRe.matchGroups ([9, 160] ++ ([1634, 48] ++ ([32, 61, 32, 84, 83, 32] ++ ([54] ++ (32 :: ([51] ++ [32]))))))
    = some [(3, [51]), (2, [54]), (1, [1634, 48])] := by decide

/-- **C08, B ⇔** -/
theorem C08_bpm_sound (s : Str) (caps : Caps) (h : Gen.bpmRe.matchGroups s = some caps) :
    ∃ p t l q, s = p ++ (t ++ ([32, 61, 32, 66, 32] ++ (l ++ q))) ∧ AllIn .space p ∧ AllIn .digit t ∧ t ≠ [] ∧
      AllIn .digit l ∧ l ≠ [] ∧ AllIn .space q ∧ caps = [(2, l), (1, t)] := by
  rw [matchGroups_of_norm_eq gen_bpm_is_template] at h; exact Chartparse.Rx.bpm_sound s caps h

/-- **C08, A ⇔** (no trailing blanks; at most one final line feed) -/
theorem C08_anchor_sound (s : Str) (caps : Caps) (h : Gen.anchorRe.matchGroups s = some caps) :
    ∃ p t l r', s = p ++ (t ++ ([32, 61, 32, 65, 32] ++ (l ++ r'))) ∧ AllIn .space p ∧ AllIn .digit t ∧ t ≠ [] ∧
      AllIn .digit l ∧ l ≠ [] ∧ (r' = [] ∨ r' = [10]) ∧ caps = [(2, l), (1, t)] := by
  rw [matchGroups_of_norm_eq gen_anchor_is_template] at h; exact Chartparse.Rx.anchor_sound s caps h

/-- **C08, TS ⇔**: two numbers, or three with exactly one blank before the third -/
theorem C08_ts_sound (s : Str) (caps : Caps) (h : Gen.tsRe.matchGroups s = some caps) :
    ∃ p t u, AllIn .space p ∧ AllIn .digit t ∧ t ≠ [] ∧ AllIn .digit u ∧ u ≠ [] ∧
      ((∃ q, s = p ++ (t ++ ([32, 61, 32, 84, 83, 32] ++ (u ++ q))) ∧ AllIn .space q ∧ caps = [(2, u), (1, t)]) ∨
       (∃ l q, s = p ++ (t ++ ([32, 61, 32, 84, 83, 32] ++ (u ++ (32 :: (l ++ q))))) ∧ AllIn .digit l ∧ l ≠ [] ∧ AllIn .space q ∧
          caps = [(3, l), (2, u), (1, t)])) := by
  rw [matchGroups_of_norm_eq (gen_ts_is_template.trans tsEv_norm.symm)] at h; exact Chartparse.Rx.ts_sound s caps h

end Chartparse.Props.C08
