import Chartparse.Proofs.ReSound
import Chartparse.Proofs.ReDispatch
import Chartparse.Proofs.ReLyric
import Chartparse.Proofs.ReNorm
import Chartparse.Proofs.ReLine
import Chartparse.Model.Dispatch
import Chartparse.Proofs.DispatchProofs
/-! Property theorems of C09 (statements only; helper lemmas live in `Proofs/`). -/
namespace Chartparse.Props.C09
open Chartparse Chartparse.Rx

theorem lyric_accept :
    ∀ (p t v q : Str)
    (hp : AllIn .space p) (ht : AllIn .digit t) (ht0 : t ≠ []) (hv : AllIn .any v) (hq : AllIn .space q),
    lyricRe.matchGroups (p ++ (t ++ ([32, 61, 32, 69, 32, 34, 108, 121, 114, 105, 99, 32] ++ (v ++ (34 :: q)))))
      = some [(2, v), (1, t)] :=
  @Chartparse.Rx.lyric_accept

theorem gen_lyric_is_template : Gen.lyricRe.norm = lyricT.norm := by decide
theorem gen_section_is_template : Gen.sectionRe.norm = sectionT.norm := by decide
theorem gen_text_is_template : Gen.textRe.norm = textT.norm := by decide

/-- obligation: the events section offers its kinds as lyric, section, text (recorded from a real parse) -/
theorem gen_events_kind_order : Gen.eventsKindOrder = [6, 7, 8] := by decide

theorem C09_lyric_accept (p t v q : Str) (hp : AllIn .space p) (ht : AllIn .digit t) (ht0 : t ≠ [])
    (hv : AllIn .any v) (hq : AllIn .space q) :
    Gen.lyricRe.matchGroups (p ++ (t ++ ([32, 61, 32, 69, 32, 34, 108, 121, 114, 105, 99, 32] ++ (v ++ 34 :: q))))
      = some [(2, v), (1, t)] := by
  rw [matchGroups_of_norm_eq gen_lyric_is_template]; exact Chartparse.Rx.lyric_accept' p t v q hp ht ht0 hv hq

theorem C09_section_accept (p t v q : Str) (hp : AllIn .space p) (ht : AllIn .digit t) (ht0 : t ≠ [])
    (hv : AllIn .any v) (hq : AllIn .space q) :
    Gen.sectionRe.matchGroups (p ++ (t ++ ([32, 61, 32, 69, 32, 34, 115, 101, 99, 116, 105, 111, 110, 32] ++ (v ++ 34 :: q))))
      = some [(2, v), (1, t)] := by
  rw [matchGroups_of_norm_eq gen_section_is_template]; exact Chartparse.Rx.section_accept p t v q hp ht ht0 hv hq

theorem C09_text_accept (p t v q : Str) (hp : AllIn .space p) (ht : AllIn .digit t) (ht0 : t ≠ [])
    (hv : AllIn (.notLit 34) v) (hq : AllIn .space q) :
    Gen.textRe.matchGroups (p ++ (t ++ ([32, 61, 32, 69, 32, 34] ++ (v ++ 34 :: q)))) = some [(2, v), (1, t)] := by
  rw [matchGroups_of_norm_eq gen_text_is_template]; exact Chartparse.Rx.text_accept p t v q hp ht ht0 hv hq

/-- C09, dispatch: a `lyric v` line is classified as a lyric (position 0 of the kind order) carrying `v`, whatever
    the other two recognisers would say — first match wins -/
theorem C09_lyric_dispatch (p t v q : Str) (hp : AllIn .space p) (ht : AllIn .digit t) (ht0 : t ≠ [])
    (hv : AllIn .any v) (hq : AllIn .space q) :
    Dsp.classify (Gen.eventsKindOrder.map decodeKind)
      (p ++ (t ++ ([32, 61, 32, 69, 32, 34, 108, 121, 114, 105, 99, 32] ++ (v ++ 34 :: q)))) 0
      = some (0, .ev 6 (intOf t) v) := by
  rw [gen_events_kind_order]
  simp only [List.map, Dsp.classify, decodeKind, kindRe]
  rw [C09_lyric_accept p t v q hp ht ht0 hv hq]
  simp [grpD, grp]

/-- **C09, text**: a quote-free text that starts with neither `lyric ` nor `section ` is rejected by the lyric and the
    section recognisers and accepted by the text recogniser — so it is classified as a text event (position 2 of the kind
    order) carrying the whole text -/
theorem C09_text_dispatch (p t v q : Str) (hp : AllIn .space p) (ht : AllIn .digit t) (ht0 : t ≠ [])
    (hv : AllIn (.notLit 34) v) (hq : AllIn .space q)
    (hl : ¬ ∃ r, v ++ 34 :: q = [108, 121, 114, 105, 99, 32] ++ r)
    (hs : ¬ ∃ r, v ++ 34 :: q = [115, 101, 99, 116, 105, 111, 110, 32] ++ r) :
    Dsp.classify (Gen.eventsKindOrder.map decodeKind) (p ++ (t ++ ([32, 61, 32, 69, 32, 34] ++ (v ++ 34 :: q)))) 0
      = some (2, .ev 8 (intOf t) v) := by
  rw [gen_events_kind_order]
  have hly : Gen.lyricRe.matchGroups (p ++ (t ++ ([32, 61, 32, 69, 32, 34] ++ (v ++ 34 :: q)))) = none := by
    rw [matchGroups_of_norm_eq gen_lyric_is_template]
    unfold lyricT
    have := ev_reject [69, 32, 34, 108, 121, 114, 105, 99, 32] (quotedTail .any) p t ([69, 32, 34] ++ (v ++ 34 :: q)) hp ht ht0 (by
      rintro ⟨r, hr⟩
      simp only [List.cons_append, List.nil_append, List.cons.injEq, true_and] at hr
      exact hl ⟨r, by simpa using hr⟩)
    simpa using this
  have hse : Gen.sectionRe.matchGroups (p ++ (t ++ ([32, 61, 32, 69, 32, 34] ++ (v ++ 34 :: q)))) = none := by
    rw [matchGroups_of_norm_eq gen_section_is_template]
    unfold sectionT
    have := ev_reject [69, 32, 34, 115, 101, 99, 116, 105, 111, 110, 32] (quotedTail .any) p t ([69, 32, 34] ++ (v ++ 34 :: q)) hp ht ht0 (by
      rintro ⟨r, hr⟩
      simp only [List.cons_append, List.nil_append, List.cons.injEq, true_and] at hr
      exact hs ⟨r, by simpa using hr⟩)
    simpa using this
  simp only [List.map, Dsp.classify, decodeKind, kindRe]
  rw [hly, hse, C09_text_accept p t v q hp ht ht0 hv hq]
  simp [grpD, grp]

/-- **C09, section**: a `section v` line is rejected by the lyric recogniser and classified as a section carrying `v` -/
theorem C09_section_dispatch (p t v q : Str) (hp : AllIn .space p) (ht : AllIn .digit t) (ht0 : t ≠ [])
    (hv : AllIn .any v) (hq : AllIn .space q) :
    Dsp.classify (Gen.eventsKindOrder.map decodeKind)
      (p ++ (t ++ ([32, 61, 32, 69, 32, 34, 115, 101, 99, 116, 105, 111, 110, 32] ++ (v ++ 34 :: q)))) 0
      = some (1, .ev 7 (intOf t) v) := by
  rw [gen_events_kind_order]
  have hly : Gen.lyricRe.matchGroups (p ++ (t ++ ([32, 61, 32, 69, 32, 34, 115, 101, 99, 116, 105, 111, 110, 32] ++ (v ++ 34 :: q)))) = none := by
    rw [matchGroups_of_norm_eq gen_lyric_is_template]
    unfold lyricT
    have := ev_reject [69, 32, 34, 108, 121, 114, 105, 99, 32] (quotedTail .any) p t
      ([69, 32, 34, 115, 101, 99, 116, 105, 111, 110, 32] ++ (v ++ 34 :: q)) hp ht ht0 (by
      rintro ⟨r, hr⟩
      simp at hr)
    simpa using this
  simp only [List.map, Dsp.classify, decodeKind, kindRe]
  rw [hly, C09_section_accept p t v q hp ht ht0 hv hq]
  simp [grpD, grp]

/-- why the order obligation exists: offered first, the text recogniser claims a (quote-free) lyric line whole -/
theorem C09_order_matters :
    Dsp.classify ([8, 6, 7].map decodeKind) (cp "0 = E \"lyric la\"") 0 = some (0, .ev 8 0 (cp "lyric la")) := by decide

/-- non-vacuity: a lyric with inner quotes and blanks, Arabic-Indic tick -/
example : decodeKind 6 (cp "  ١٢ = E \"lyric say \"hi\" \" ") = some (.ev 6 12 (cp "say \"hi\" ")) := by decide

/-- **C09 ⇔**: what the three shipped recognisers accept, exactly -/
theorem C09_text_sound (s : Str) (caps : Caps) (h : Gen.textRe.matchGroups s = some caps) :
    ∃ p t v q, s = p ++ (t ++ ([32, 61, 32, 69, 32, 34] ++ (v ++ 34 :: q))) ∧ AllIn .space p ∧ AllIn .digit t ∧ t ≠ [] ∧
      AllIn (.notLit 34) v ∧ AllIn .space q ∧ caps = [(2, v), (1, t)] := by
  rw [matchGroups_of_norm_eq gen_text_is_template] at h; exact Chartparse.Rx.text_sound s caps h

theorem C09_lyric_sound (s : Str) (caps : Caps) (h : Gen.lyricRe.matchGroups s = some caps) :
    ∃ p t v q, s = p ++ (t ++ ([32, 61, 32, 69, 32, 34, 108, 121, 114, 105, 99, 32] ++ (v ++ 34 :: q))) ∧ AllIn .space p ∧
      AllIn .digit t ∧ t ≠ [] ∧ AllIn .any v ∧ AllIn .space q ∧ caps = [(2, v), (1, t)] := by
  rw [matchGroups_of_norm_eq gen_lyric_is_template] at h; exact Chartparse.Rx.lyric_sound s caps h

theorem C09_section_sound (s : Str) (caps : Caps) (h : Gen.sectionRe.matchGroups s = some caps) :
    ∃ p t v q, s = p ++ (t ++ ([32, 61, 32, 69, 32, 34, 115, 101, 99, 116, 105, 111, 110, 32] ++ (v ++ 34 :: q))) ∧
      AllIn .space p ∧ AllIn .digit t ∧ t ≠ [] ∧ AllIn .any v ∧ AllIn .space q ∧ caps = [(2, v), (1, t)] := by
  rw [matchGroups_of_norm_eq gen_section_is_template] at h; exact Chartparse.Rx.section_sound s caps h

end Chartparse.Props.C09
