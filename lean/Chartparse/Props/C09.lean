import Chartparse.Proofs.ReLyric
import Chartparse.Proofs.ReNorm
/-! Property theorems of C09 (statements only; helper lemmas live in `Proofs/`). -/
namespace Chartparse.Props.C09
open Chartparse Chartparse.Rx

theorem lyric_accept :
    ∀ (p t v q : Str)
    (hp : AllIn .space p) (ht : AllIn .digit t) (ht0 : t ≠ []) (hv : AllIn .any v) (hq : AllIn .space q),
    lyricRe.matchGroups (p ++ (t ++ ([32, 61, 32, 69, 32, 34, 108, 121, 114, 105, 99, 32] ++ (v ++ (34 :: q)))))
      = some [(2, v), (1, t)] :=
  @Chartparse.Rx.lyric_accept

end Chartparse.Props.C09
