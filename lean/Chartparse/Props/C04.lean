import Chartparse.Proofs.InstProofs
import Chartparse.Proofs.Round
/-! Property theorems of C04 (statements only; helper lemmas live in `Proofs/`). -/
namespace Chartparse.Props.C04
open Chartparse Chartparse.Inst Chartparse.F64

/-- C04: `round(resolution / 3)` computed through binary64 is the nearest integer for every
    resolution below 2^50 -/
theorem threshold_float :
    ∀ (res : Nat) (hlt : res < 1125899906842624),
    noteDurationTicks res 3 = ((2 * res + 3) / 6 : Nat) :=
  @Chartparse.F64.threshold_float

theorem C04_table :
    ∀ (thr : Int) (tick : Nat) (lanes : List Bool) (tap forced : Bool)
    (prev : Option (Nat × List Bool)) (h : ¬ (forced = true ∧ prev = none)),
    hopoState thr tick lanes tap forced prev = .ok (rule thr tick lanes tap forced prev) :=
  @Chartparse.Inst.hopo_rule

theorem C04_first_forced :
    ∀ (thr : Int) (tick : Nat) (lanes : List Bool) (tap : Bool),
    hopoState thr tick lanes tap true none = .error .valueError :=
  @Chartparse.Inst.hopo_forced_first

end Chartparse.Props.C04
