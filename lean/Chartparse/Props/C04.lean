import Chartparse.Proofs.ChartCompose
import Chartparse.Proofs.TrackProofs
import Chartparse.Proofs.InstProofs
import Chartparse.Proofs.Round
import Chartparse.Model.Instrument
/-! Property theorems of C04 (statements only; helper lemmas live in `Proofs/`). -/
namespace Chartparse.Props.C04
open Chartparse Chartparse.Inst Chartparse.Tempo Chartparse.F64

/-- C04: `round(resolution / 3)` computed through binary64 is the nearest integer for every
    resolution below 2^50 -/
theorem threshold_float :
    ∀ (res : Nat) (hlt : res < 1125899906842624),
    noteDurationTicks res 3 = ((2 * res + 3) / 6 : Nat) :=
  @Chartparse.F64.threshold_float

theorem C04_table :
    ∀ (thr : Int) (tick : Nat) (lanes : List Bool) (tap forced : Bool)
    (prev : Option (Nat × List Bool)) (h : ¬ (forced = true ∧ prev = none)),
    hopoState thr tick lanes tap forced prev = .ok (rule thr tick lanes tap forced prev) :=
  @Chartparse.Inst.hopo_rule

theorem C04_first_forced :
    ∀ (thr : Int) (tick : Nat) (lanes : List Bool) (tap : Bool),
    hopoState thr tick lanes tap true none = .error .valueError :=
  @Chartparse.Inst.hopo_forced_first

/-- obligation: `NoteDuration.EIGHTH_TRIPLET.value` is the integer 3 -/
theorem gen_triplet : Gen.eighthTriplet = 3 := by decide

/-- C04, threshold: for every resolution below 2⁵⁰ the model's `note_duration_to_ticks(res, EIGHTH_TRIPLET)` — Python
    `round` of the binary64 quotient — is `res/3` rounded to the nearest tick -/
theorem C04_threshold (res : Nat) (hlt : res < 1125899906842624) :
    tripletThreshold (res : Int) = ((2 * res + 3) / 6 : Nat) := by
  unfold tripletThreshold
  rw [gen_triplet, Int.toNat_natCast]
  exact Chartparse.F64.threshold_float res hlt

/-- the literal "for every resolution" is false for binary64 — the listed known finding as a kernel-checked witness:
    at resolution 2⁵³ the computed threshold is one tick short of `round(res/3)` -/
theorem threshold_fails_at_2_53 :
    tripletThreshold 9007199254740992 = 3002399751580330 ∧ (2 * 9007199254740992 + 3) / 6 = 3002399751580331 := by
  decide +kernel

/-- non-vacuity: resolution 100 (threshold 33, where rounding and truncating differ from 192): a different single note
    33 ticks later is a HOPO, 34 ticks later a strum, and the forced flag inverts both -/
example : (hopoState (tripletThreshold 100) 133 [false, true, false, false, false] false false
      (some (100, [true, false, false, false, false]))).toOption = some .hopo ∧
    (hopoState (tripletThreshold 100) 134 [false, true, false, false, false] false false
      (some (100, [true, false, false, false, false]))).toOption = some .strum ∧
    (hopoState (tripletThreshold 100) 133 [false, true, false, false, false] false true
      (some (100, [true, false, false, false, false]))).toOption = some .strum := by decide +kernel

/-- **C04 (track)**: the first note is a tap or a strum, every later note follows the rule as stated, relative to its
    predecessor in the track -/
theorem C04_track :
    ∀ {res evs sps gs prev b s ns} (h : NotesOf res evs sps gs prev b s ns),
    ∀ i (hi : i < ns.length) (hg : i < gs.length),
      hopoState (tripletThreshold res) ns[i].tick ns[i].lanes (gs[i].any fun d => d.idx == 6) (gs[i].any fun d => d.idx == 5)
        (prevOf (if i = 0 then prev else ns[i - 1]?)) = .ok ns[i].hopo :=
  @Chartparse.Inst.notes_hopo

/-- **the notes of every track of every returned chart** are `buildNotes` of the tick groups of the N lines of one of the
    text's own instrument sections, against that section's own S lines, the chart's resolution and the chart's tempo map,
    starting with no previous note and both cursors at zero — so `NotesOf` holds and with it every track-level theorem
    (C02 ticks/lanes, C03 sustains, C04 HOPO rule, C05 star power, C11 timestamps) -/
theorem C04_chart :
    ∀ (secs : Sections) (want : Option (List (Nat × Nat))) (c : Chart)
    (h : parseSections secs want = .ok c) (rt : RoutedTrack) (hrt : rt ∈ c.tracks),
    ∃ tag lines, (tag, lines) ∈ secs ∧ (routeOf tag).isSome = true ∧
      buildNotes c.res c.sync.bpms (sectionPhrases lines) (groups (sectionNotes lines)) none 0 0 = .ok rt.track.notes ∧
      NotesOf c.res c.sync.bpms (sectionPhrases lines) (groups (sectionNotes lines)) none 0 0 rt.track.notes :=
  @Chartparse.chart_track_notes

end Chartparse.Props.C04
