import Chartparse.Proofs.Scanner
/-! Property theorems of C06 (statements only; helper lemmas live in `Proofs/`). -/
namespace Chartparse.Props.C06
open Chartparse

/-- C06, newline independence: LF- and CRLF-terminated renderings split into the same lines -/
theorem C06_newline_lf :
    ∀ (ls : List Str) (h : ∀ l ∈ ls, BreakFree l),
    splitlines (ls.flatMap fun l => l ++ [10]) = ls :=
  @Chartparse.splitlines_lf

theorem C06_newline_crlf :
    ∀ (ls : List Str) (h : ∀ l ∈ ls, BreakFree l),
    splitlines (ls.flatMap fun l => l ++ [13, 10]) = ls :=
  @Chartparse.splitlines_crlf

theorem scan_body :
    ∀ (ht : Str → Option Str) (tag : Str) (body rest : List Str) (hb : BodyOK body)
    (acc seen : List Str) (d : Sections),
    scanGo ht (body ++ [125] :: rest) (some tag) (some acc) seen d =
      scanGo ht rest none none ([125] :: (body.reverse ++ seen)) (assign d tag (acc.reverse ++ body)) :=
  @Chartparse.scan_body

theorem C06_frame :
    ∀ (ht : Str → Option Str) (hdr : Str → Str)
    (hh : ∀ tag, ht (hdr tag) = some tag)
    (secs : Sections) (hb : ∀ s ∈ secs, BodyOK s.2),
    scanGo ht (secs.flatMap (renderSec hdr)) none none [] [] = .ok (secs.foldl (fun d s => assign d s.1 s.2) []) :=
  @Chartparse.scan_wellformed

end Chartparse.Props.C06
