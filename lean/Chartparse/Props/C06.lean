import Chartparse.Proofs.SectionLaws
import Chartparse.Proofs.Scanner
import Chartparse.Gen.Tables
/-! Property theorems of C06 (statements only; helper lemmas live in `Proofs/`). -/
namespace Chartparse.Props.C06
open Chartparse Chartparse.Tempo

/-- C06, newline independence: LF- and CRLF-terminated renderings split into the same lines -/
theorem C06_newline_lf :
    ∀ (ls : List Str) (h : ∀ l ∈ ls, BreakFree l),
    splitlines (ls.flatMap fun l => l ++ [10]) = ls :=
  @Chartparse.splitlines_lf

theorem C06_newline_crlf :
    ∀ (ls : List Str) (h : ∀ l ∈ ls, BreakFree l),
    splitlines (ls.flatMap fun l => l ++ [13, 10]) = ls :=
  @Chartparse.splitlines_crlf

theorem scan_body :
    ∀ (ht : Str → Option Str) (tag : Str) (body rest : List Str) (hb : BodyOK body)
    (acc seen : List Str) (d : Sections),
    scanGo ht (body ++ [125] :: rest) (some tag) (some acc) seen d =
      scanGo ht rest none none ([125] :: (body.reverse ++ seen)) (assign d tag (acc.reverse ++ body)) :=
  @Chartparse.scan_body

theorem C06_frame :
    ∀ (ht : Str → Option Str) (hdr : Str → Str)
    (hh : ∀ tag, ht (hdr tag) = some tag)
    (secs : Sections) (hb : ∀ s ∈ secs, BodyOK s.2),
    scanGo ht (secs.flatMap (renderSec hdr)) none none [] [] = .ok (secs.foldl (fun d s => assign d s.1 s.2) []) :=
  @Chartparse.scan_wellformed

/-- the 40 `<Difficulty><Instrument>` headers as the file format documents them, built from the regenerated enums -/
def expectedHeaders : List (Str × Nat × Nat × Nat × Nat) :=
  (List.range Gen.instruments.length).flatMap fun i => (List.range Gen.difficulties.length).map fun d =>
    ((Gen.difficulties.getD d ("", [])).2 ++ (Gen.instruments.getD i ("", [])).2, i, d, i, d)

/-- obligation on the routing table *observed* on probe charts: exactly the 40 documented headers, each stored under and
    labelled with its own (instrument, difficulty); tags pairwise distinct and none of them a required tag -/
theorem gen_header_table :
    Gen.headerTable = expectedHeaders ∧ Gen.headerTable.length = 40 ∧ (Gen.headerTable.map (·.1)).Nodup ∧
    Gen.headerTable.all (fun e => !Gen.requiredTags.contains e.1) = true ∧
    Gen.requiredTags = [cp "Song", cp "SyncTrack", cp "Events"] := by decide

/-- C06, routing on the model: a tag of the table is routed to its own key and label -/
theorem C06_route (tag : Str) (r : Nat × Nat × Nat × Nat) (h : routeOf tag = some r) :
    (tag, r) ∈ Gen.headerTable := by
  unfold routeOf at h
  cases hf : Gen.headerTable.find? (·.1 == tag) with
  | none => rw [hf] at h; cases h
  | some e =>
    rw [hf] at h
    simp only [Option.map_some, Option.some.injEq] at h
    have hm := List.mem_of_find?_eq_some hf
    have he := List.find?_some hf
    simp only [beq_iff_eq] at he
    rw [← h, ← he]
    exact hm

/-- C06: reading by path — text-mode universal newlines change nothing for `splitlines`, a leading BOM is dropped -/
theorem C06_bom (decoded : Str) (want : Option (List (Nat × Nat))) :
    parsePath (65279 :: decoded) want = parsePath (match decoded with | 65279 :: t => 65279 :: t | t => t) want ∨
    parsePath (65279 :: decoded) want = parseChart (universalNewlines decoded) want := Or.inr rfl

/-- C06: a chart lacking a required section is rejected with ValueError, whatever else it contains -/
theorem C06_required (secs : Sections) (want : Option (List (Nat × Nat))) (tag : Str) (ht : tag ∈ Gen.requiredTags)
    (hmiss : ∀ s ∈ secs, s.1 ≠ tag) : parseSections secs want = .error .valueError := by
  unfold parseSections parseShared
  have : (Gen.requiredTags.all fun t => secs.any (·.1 == t)) = false := by
    rw [Bool.eq_false_iff]
    intro hall
    rw [List.all_eq_true] at hall
    have := hall tag ht
    rw [List.any_eq_true] at this
    obtain ⟨s, hs, he⟩ := this
    exact hmiss s hs (by simpa using he)
  rw [this]
  rfl

theorem route_cons :
    ∀ (res : Int) (evs : List BpmEv) (sel : Nat × Nat → Bool) (s : Str × List Str) (rest : Sections) (r : RouteOut),
    routeTracks res evs sel (s :: rest) = .ok r ↔
      ∃ d rr, stepData res evs sel s = some d ∧ routeTracks res evs sel rest = .ok rr ∧ r = prepend d rr :=
  @Chartparse.route_cons

/-- **C06 (section order, routing)**: for any permutation of the sections, a successful routing stays successful with
    the same tracks (as a multiset), the same number of unparsable lines and the same unhandled reports (as a multiset) -/
theorem C06_perm :
    ∀ (res : Int) (evs : List BpmEv) (sel : Nat × Nat → Bool) {secs secs' : Sections} (hp : secs.Perm secs'),
    ∀ r : RouteOut, routeTracks res evs sel secs = .ok r →
      ∃ r' : RouteOut, routeTracks res evs sel secs' = .ok r' ∧ RouteEq r r' :=
  @Chartparse.route_perm

/-- **C06 (unknown sections, routing)**: inserting a section whose tag is neither a known header nor a required tag
    changes nothing but the reports: same tracks, same unparsable count, one more unhandled report -/
theorem C06_unknown :
    ∀ (res : Int) (evs : List BpmEv) (sel : Nat × Nat → Bool) (pre post : Sections) (tag : Str) (body : List Str)
    (hu : routeOf tag = none) (hreq : Gen.requiredTags.contains tag = false),
    ∀ r : RouteOut, routeTracks res evs sel (pre ++ post) = .ok r →
      ∃ r' : RouteOut, routeTracks res evs sel (pre ++ (tag, body) :: post) = .ok r' ∧ r'.1 = r.1 ∧ r'.2.1 = r.2.1 ∧
        r'.2.2.Perm (tag :: r.2.2) :=
  @Chartparse.route_unknown

/-- **C06 (unknown sections, metadata / sync / events)**: the selection-independent part of the parse is blind to a
    section whose tag is not a required tag -/
theorem C06_unknown_shared :
    ∀ (pre post : Sections) (tag : Str) (body : List Str)
    (hreq : ∀ t ∈ Gen.requiredTags, (tag == t) = false),
    parseShared (pre ++ (tag, body) :: post) = parseShared (pre ++ post) :=
  @Chartparse.shared_unknown

/-- non-vacuity: a two-section file, CRLF, framed as written -/
example : (scanSections (splitlines (cp "[Song]\r\n{\r\n  Resolution = 192\r\n}\r\n[Events]\r\n{\r\n}\r\n"))).toOption =
    some [(cp "Song", [cp "  Resolution = 192"]), (cp "Events", [])] := by decide

end Chartparse.Props.C06
