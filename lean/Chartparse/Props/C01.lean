import Chartparse.Proofs.ChartOrder
import Chartparse.Proofs.EventsProofs
import Chartparse.Proofs.C01Proofs
import Chartparse.Proofs.Bridge
import Chartparse.Proofs.Strict
import Chartparse.Proofs.ChainProofs
/-! Property theorems of C01 (statements only; helper lemmas live in `Proofs/`). -/
namespace Chartparse.Props.C01
open Chartparse.Inst Chartparse.Meta
open Chartparse Chartparse.Tempo Chartparse.F64

/-- per-segment bound of C01: microseconds of the computed duration vs the exact duration -/
theorem seg_bound :
    ∀ (Δ n res : Nat) (hn : 1 ≤ n) (hres : 1 ≤ res)
    (hE : (Δ : Rat) * 60000 / ((n : Rat) * (res : Rat)) < 1000000),
    |(usOfSeconds (secsFromTicks Δ (fl ((n : Rat) / 1000)) res) : Rat)
        - 1000000 * ((Δ : Rat) * 60000 / ((n : Rat) * (res : Rat)))| ≤ 1/2 + 1/1000 :=
  @Chartparse.F64.seg_bound

theorem build_linked :
    ∀ (res : Int) (p : BpmEv) (raw : List (Nat × Rat)) (es : List BpmEv)
    (h : buildFrom res p raw = .ok es),
    Linked res.toNat (p :: es) :=
  @Chartparse.Tempo.build_linked

/-- the code's un-hinted query agrees with the list walk used in the proofs -/
theorem tsAt_eq_tsRec :
    ∀ (res : Int) (hres : 0 < res) (evs : List BpmEv),
    ∀ (t : Nat), (∀ e rest, evs = e :: rest → e.tick ≤ t) →
      (∀ x g, tsAt res evs (t : Int) 0 = .ok (x, g) → tsRec res.toNat evs t = some x) ∧
      (∀ x, tsRec res.toNat evs t = some x → ∃ g, tsAt res evs (t : Int) 0 = .ok (x, g)) :=
  @Chartparse.Tempo.tsAt_eq_tsRec

/-- C01: the walked timestamp is within (½ + 10⁻³) µs per rounding of the exact tempo-map time -/
theorem tsRec_close :
    ∀ (res : Nat) (hres : 1 ≤ res) (evs : List EvN) (hn : ∀ e ∈ evs, 1 ≤ e.n)
    (hl : Linked res (evs.map EvN.toEv)),
    ∀ t x, tsRec res (evs.map EvN.toEv) t = some x →
      exactRec res evs t < 1000000000000 →
      |((x - headTs evs : Int) : Rat) - exactRec res evs t| ≤ (segsRec evs t : Rat) * (1/2 + 1/1000) :=
  @Chartparse.Tempo.tsRec_close

/-- **C01 (query)**: for every resolution ≥ 1, every list of written `(tick, n)` pairs with `n ≥ 1` that the code
    accepts as a tempo map, every tick whose exact time is below 10⁶ s: the un-hinted public query returns a timestamp
    within `(½ + 10⁻³) µs` per tempo segment traversed of the exact tempo-map time. -/
theorem C01_query :
    ∀ (res : Nat) (hres : 1 ≤ res) (pairs : List (Nat × Nat)) (hn : ∀ p ∈ pairs, 1 ≤ p.2)
    (evs : List BpmEv) (hb : mapOf res pairs = .ok evs) (t : Nat) (x : Int) (g : Nat)
    (hq : tsAt (res : Int) evs (t : Int) 0 = .ok (x, g)) (hE : exactUs res pairs t < 1000000000000),
    |(x : Rat) - exactUs res pairs t| ≤ (segments pairs t : Rat) * (1/2 + 1/1000) :=
  @Chartparse.Tempo.C01_query

/-- **C01 (zero)**: tick 0 is exactly time zero, with governing index 0 -/
theorem C01_zero :
    ∀ (res : Nat) (pairs : List (Nat × Nat)) (evs : List BpmEv) (hb : mapOf res pairs = .ok evs)
    (x : Int) (g : Nat) (hq : tsAt (res : Int) evs 0 0 = .ok (x, g)),
    x = 0 :=
  @Chartparse.Tempo.C01_zero

/-- **C11 (any line order)**: for the body lines of one kind in any order whatsoever — sorted, partially sorted,
    shuffled, with duplicates — building the events either raises ValueError or returns, for every line, exactly the
    timestamp and governing index of the un-hinted query for its tick -/
theorem C01_events :
    ∀ (res : Int) (evs : List BpmEv) (hs : (evs.map (·.tick)).Pairwise (· < ·))
    (ticks : List Nat) (h : Nat),
    chain res evs ticks h = .error .valueError ∨
    ∃ out, chain res evs ticks h = .ok out ∧ out.length = ticks.length ∧
      ∀ i (hi : i < ticks.length) (ho : i < out.length), tsAt res evs (ticks[i] : Int) 0 = .ok out[i] :=
  @Chartparse.Tempo.chain_any_order_ts

/-- non-vacuity: the 4-segment map of tests/data/test.chart at resolution 100 is accepted by the model, and the
    envelope hypothesis of `C01_query` holds at tick 1840 -/
example : (match mapOf 100 [(0, 117000), (800, 120000), (1200, 90000), (1800, 100000)] with
    | .ok evs => evs.map (·.ts) | .error _ => []) = [0, 4102564, 6102564, 10102564] := by decide +kernel
example : exactUs 100 [(0, 117000), (800, 120000), (1200, 90000), (1800, 100000)] 1840 < 1000000000000 := by decide +kernel

/-- **C11 / C01 for the global events of a parsed chart**: every text, section and lyric event carries exactly the
    un-hinted query's timestamp and governing index for its tick -/
theorem C01_chart_events :
    ∀ (secs : Sections) (want : Option (List (Nat × Nat))) (c : Chart) (h : parseSections secs want = .ok c),
    ∀ e, (e ∈ c.events.texts ∨ e ∈ c.events.sections ∨ e ∈ c.events.lyrics) →
      tsAt c.res c.sync.bpms (e.tick : Int) 0 = .ok (e.ts, e.idx) :=
  @Chartparse.chart_events_ts

/-- **C11 / C01 for a track built on a trustworthy map**: notes (start), star-power phrases and track events -/
theorem C01_track_events :
    ∀ (res : Int) (evs : List BpmEv) (hs : (evs.map (·.tick)).Pairwise (· < ·))
    (nd : List NDatum) (sd : List Phrase) (td : List (Nat × Str)) (t : Track) (h : buildTrack res evs nd sd td = .ok t),
    (∀ n ∈ t.notes, tsAt res evs (n.tick : Int) 0 = .ok (n.ts, n.idx)) ∧
    (∀ e ∈ t.sps, tsAt res evs (e.tick : Int) 0 = .ok (e.ts, e.idx)) ∧
    (∀ e ∈ t.tes, tsAt res evs (e.tick : Int) 0 = .ok (e.ts, e.idx)) ∧
    t.sps.map (fun e => (⟨e.tick, e.len⟩ : Phrase)) = sd ∧ t.tes.map (fun e => (e.tick, e.value)) = td :=
  @Chartparse.buildTrack_ts

/-- **C11 / C01 for text, section, lyric and track events** -/
theorem C01_value_events :
    ∀ (res : Int) (evs : List BpmEv) (hs : (evs.map (·.tick)).Pairwise (· < ·))
    (l : List (Nat × Str)) (out : List ValEv) (h : buildValEvs res evs l = .ok out),
    out.map (fun e => (e.tick, e.value)) = l ∧ ∀ e ∈ out, tsAt res evs (e.tick : Int) 0 = .ok (e.ts, e.idx) :=
  @Chartparse.buildValEvs_spec

theorem C01_from_file :
    ∀ (text : Str) (want : Option (List (Nat × Nat))) (c : Chart) (h : parseChart text want = .ok c),
    ∀ p ∈ timed c, ∃ g, tsAt c.res c.sync.bpms (p.1 : Int) 0 = .ok (p.2, g) :=
  @Chartparse.text_timed_query

end Chartparse.Props.C01
