import Chartparse.Proofs.C01Proofs
import Chartparse.Proofs.Bridge
import Chartparse.Proofs.Strict
/-! Property theorems of C01 (statements only; helper lemmas live in `Proofs/`). -/
namespace Chartparse.Props.C01
open Chartparse Chartparse.Tempo Chartparse.F64

/-- per-segment bound of C01: microseconds of the computed duration vs the exact duration -/
theorem seg_bound :
    ∀ (Δ n res : Nat) (hn : 1 ≤ n) (hres : 1 ≤ res)
    (hE : (Δ : Rat) * 60000 / ((n : Rat) * (res : Rat)) < 1000000),
    |(usOfSeconds (secsFromTicks Δ (fl ((n : Rat) / 1000)) res) : Rat)
        - 1000000 * ((Δ : Rat) * 60000 / ((n : Rat) * (res : Rat)))| ≤ 1/2 + 1/1000 :=
  @Chartparse.F64.seg_bound

theorem build_linked :
    ∀ (res : Int) (p : BpmEv) (raw : List (Nat × Rat)) (es : List BpmEv)
    (h : buildFrom res p raw = .ok es),
    Linked res.toNat (p :: es) :=
  @Chartparse.Tempo.build_linked

/-- the code's un-hinted query agrees with the list walk used in the proofs -/
theorem tsAt_eq_tsRec :
    ∀ (res : Int) (hres : 0 < res) (evs : List BpmEv),
    ∀ (t : Nat), (∀ e rest, evs = e :: rest → e.tick ≤ t) →
      (∀ x g, tsAt res evs (t : Int) 0 = .ok (x, g) → tsRec res.toNat evs t = some x) ∧
      (∀ x, tsRec res.toNat evs t = some x → ∃ g, tsAt res evs (t : Int) 0 = .ok (x, g)) :=
  @Chartparse.Tempo.tsAt_eq_tsRec

/-- C01: the walked timestamp is within (½ + 10⁻³) µs per rounding of the exact tempo-map time -/
theorem tsRec_close :
    ∀ (res : Nat) (hres : 1 ≤ res) (evs : List EvN) (hn : ∀ e ∈ evs, 1 ≤ e.n)
    (hl : Linked res (evs.map EvN.toEv)),
    ∀ t x, tsRec res (evs.map EvN.toEv) t = some x →
      exactRec res evs t < 1000000000000 →
      |((x - headTs evs : Int) : Rat) - exactRec res evs t| ≤ (segsRec evs t : Rat) * (1/2 + 1/1000) :=
  @Chartparse.Tempo.tsRec_close

end Chartparse.Props.C01
