import Chartparse.Proofs.Memo
import Chartparse.Gen.State
/-! C17 (partial): the only process-wide mutable state of the package is a set of memo tables of pure functions keyed by
    all their arguments (obligation on the regenerated inventory); programs over sound memo tables compute their pure
    results under any eviction and any interleaving of atomic cached calls. Not exhibited: atomicity of lru_cache's C
    implementation, logging locks, interpreter start-up — exercised by histories / threads / fresh interpreters. -/
namespace Chartparse.Props.C17
open Chartparse Chartparse.Memo

theorem memo_lookup_sound :
    ∀ {K V : Type} [DecidableEq K] (f : K → V) (m : Table K V) (k : K) (keep : K × V → Bool) (hm : Sound f m),
    (lookupOrInsert f m k keep).2 = f k ∧ Sound f (lookupOrInsert f m k keep).1 :=
  @Chartparse.Memo.lookup_sound

theorem memo_step_pure :
    ∀ {K V α : Type} [DecidableEq K] (f : K → V) (m : Table K V) (keep : K × V → Bool) (p : Prog K V α) (hm : Sound f m),
    (stepThread f m keep p).2.pure f = p.pure f ∧ Sound f (stepThread f m keep p).1 :=
  @Chartparse.Memo.step_pure

/-- whatever the interleaving and whatever is evicted, every thread still denotes its pure result -/
theorem memo_schedule :
    ∀ {K V α : Type} [DecidableEq K] (f : K → V) (m : Table K V) (ts : List (Prog K V α)) (sched : List (Nat × (K × V → Bool)))
    (hm : Sound f m),
    ((runSched f m ts sched).2.map (·.pure f)) = ts.map (·.pure f) ∧ Sound f (runSched f m ts sched).1 :=
  @Chartparse.Memo.sched_pure

/-- the inventory obligation: every memoised function is keyed by all its parameters and its body is pure; no
    module- or class-level container is written anywhere in the package; no live module-level container escaped the
    scan; no mutable default argument; no `global` / `nonlocal` write -/
def onlyPureMemos : Bool :=
  Gen.memoFunctions.all (fun m => m.2.2.1 && m.2.2.2) &&
  Gen.containers.all (fun c => !c.2.2.2) &&
  Gen.liveUnlistedContainers.isEmpty && Gen.mutableDefaults.isEmpty && Gen.globalWrites.isEmpty

/-- obligation on the regenerated shared-state inventory of /repo's working tree -/
theorem gen_state_ok : onlyPureMemos = true := by decide

/-- history corollary: a sequence of parses, each a program over the shared table (failing parses included — a program
    that stops early is still a program), started from the empty table: every one returns its pure result -/
theorem history_free {K V α : Type} [DecidableEq K] (f : K → V) (progs : List (Prog K V α))
    (sched : List (Nat × (K × V → Bool))) :
    ((runSched f [] progs sched).2.map (·.pure f)) = progs.map (·.pure f) :=
  (Chartparse.Memo.sched_pure f [] progs sched (by intro kv h; cases h)).1

/-- non-vacuity: the inventory is not empty (four memo tables on the pinned tree) -/
example : Gen.memoFunctions.length = 4 := by decide

end Chartparse.Props.C17
