import Chartparse.Proofs.Closure
import Chartparse.Gen.Imports
/-! C20: every order of importing the package's modules succeeds, leaves no partially initialised module,
    binds every imported name to the current object of its defining module, and gives every module the same
    namespace whatever the order. A reflective proof: a Boolean closure check over the regenerated import
    graph, proved sound once, evaluated by the kernel. -/
namespace Chartparse.Props.C20
open Chartparse.Imp Chartparse.Closure

/-- the Boolean check: the computed state set contains the initial state, every state in it is good,
    it is closed under importing any module, and loaded modules agree on their namespaces -/
def allOrdersOK (g : Graph) : Bool :=
  closedOK (importTop g) good (initState g) g.length (reach g) && sameNamespaces (reach g) g.length

/-- soundness: the check implies the property for every import sequence, of any length, with repetitions -/
theorem allOrders_sound (g : Graph) (h : allOrdersOK g = true) (seq : List Nat) (hseq : ∀ m ∈ seq, m < g.length) :
    ∃ s, runSeq (importTop g) (initState g) seq = some s ∧ s ∈ reach g ∧ good s = true := by
  unfold allOrdersOK at h
  rw [Bool.and_eq_true] at h
  exact closed_sound (importTop g) good (initState g) g.length (reach g) h.1 seq hseq

/-- … and any two import orders give every module they both loaded the same namespace (same names, same objects) -/
theorem allOrders_same (g : Graph) (h : allOrdersOK g = true) (seq seq' : List Nat)
    (hseq : ∀ m ∈ seq, m < g.length) (hseq' : ∀ m ∈ seq', m < g.length) (s s' : State)
    (hs : runSeq (importTop g) (initState g) seq = some s) (hs' : runSeq (importTop g) (initState g) seq' = some s')
    (m : Nat) (hm : m < g.length) (a b : NS) (ha : completeNs s m = some a) (hb : completeNs s' m = some b) : a = b := by
  obtain ⟨t, ht, htR, _⟩ := allOrders_sound g h seq hseq
  obtain ⟨t', ht', htR', _⟩ := allOrders_sound g h seq' hseq'
  rw [hs] at ht; rw [hs'] at ht'
  injection ht with ht; injection ht' with ht'
  subst ht; subst ht'
  unfold allOrdersOK at h
  rw [Bool.and_eq_true] at h
  have h2 := h.2
  unfold sameNamespaces at h2
  rw [List.all_eq_true] at h2
  have h3 := h2 s htR
  rw [List.all_eq_true] at h3
  have h4 := h3 s' htR'
  rw [List.all_eq_true] at h4
  have h5 := h4 m (by simp; exact hm)
  rw [ha, hb] at h5
  simpa using h5

/-- a module imported first, alone, succeeds (corollary for one-element sequences) -/
theorem first_import_ok (g : Graph) (h : allOrdersOK g = true) (m : Nat) (hm : m < g.length) :
    ∃ s, importTop g (initState g) m = some s ∧ good s = true := by
  obtain ⟨s, hs, _, hg⟩ := allOrders_sound g h [m] (by intro x hx; simp at hx; subst hx; exact hm)
  simp only [runSeq] at hs
  cases hi : importTop g (initState g) m with
  | none => rw [hi] at hs; cases hs
  | some s' => rw [hi] at hs; simp only [] at hs; injection hs with hs; subst hs; exact ⟨s', rfl, hg⟩

/-- the obligation on the regenerated import graph of /repo's working tree -/
theorem C20 : allOrdersOK Chartparse.Gen.importGraph = true := by decide +kernel

/-- non-vacuity: the graph has the twelve modules and the closure is not trivial -/
example : Chartparse.Gen.importGraph.length = 12 := by decide

end Chartparse.Props.C20
