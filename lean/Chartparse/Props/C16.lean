import Chartparse.Proofs.RateProofs
import Chartparse.Proofs.NpsProofs
/-! Property theorems of C16 (statements only; helper lemmas live in `Proofs/`). -/
namespace Chartparse.Props.C16
open Chartparse.Inst Chartparse.Tempo
open Chartparse Chartparse.Rate Chartparse.F64

/-- closedness at both ends, stated on the count -/
theorem count_closed :
    ∀ (notes : List Int) (s e t : Int) (ht : t ∈ notes) (h1 : s ≤ t) (h2 : t ≤ e),
    0 < count notes s e :=
  @Chartparse.Rate.count_closed

theorem nps_nonpositive :
    ∀ (notes : List Int) (s e : Int) (h : e ≤ s),
    npsCore notes s e = .error .valueError :=
  @Chartparse.Rate.nps_nonpositive

/-- the value is count / seconds up to two roundings and one inversion: relative error ≤ 3·2⁻⁵³ -/
theorem nps_value :
    ∀ (notes : List Int) (s e : Int) (h : s < e) (hc : 0 < count notes s e),
    ∃ v, npsCore notes s e = .ok v ∧
      R (3 * u) v ((count notes s e : Rat) / (((e - s : Int) : Rat) / 1000000)) :=
  @Chartparse.Rate.nps_value

/-- **C16**: an absent track raises ValueError -/
theorem C16_absent :
    ∀ (c : Chart) (key : Nat × Nat) (s e : Bound) (h : findTrack c key = none),
    notesPerSecond c key s e = .error .valueError :=
  @Chartparse.Rate.nps_absent

/-- **C16**: a track without notes raises ValueError -/
theorem C16_empty :
    ∀ (c : Chart) (key : Nat × Nat) (s e : Bound) (tr : Track) (h : findTrack c key = some tr)
    (hn : tr.notes = []),
    notesPerSecond c key s e = .error .valueError :=
  @Chartparse.Rate.nps_empty

/-- **C16**: otherwise the answer is the closed-interval count over the interval length, with the bounds resolved as the
    statement says: omitted start ↦ time zero, omitted end ↦ the track's last note end, a tick ↦ its un-hinted
    tempo-map time, a timestamp ↦ itself -/
theorem C16_value :
    ∀ (c : Chart) (key : Nat × Nat) (s e : Bound) (tr : Track) (h : findTrack c key = some tr)
    (hn : tr.notes ≠ []),
    ∃ last, lastNoteEnd tr.notes = some last ∧
      notesPerSecond c key s e = (bounds c last s e >>= fun se => npsCore (tr.notes.map (·.ts)) se.1 se.2) :=
  @Chartparse.Rate.nps_value_of_bounds

theorem C16_bounds :
    ∀ (c : Chart) (last : Int),
    bounds c last .omitted .omitted = .ok (0, last) ∧
    (∀ a, bounds c last (.time a) .omitted = .ok (a, last)) ∧
    (∀ a b, bounds c last (.time a) (.time b) = .ok (a, b)) ∧
    (∀ a x g, tsAt c.res c.sync.bpms a 0 = .ok (x, g) → bounds c last (.tick a) .omitted = .ok (x, last)) ∧
    (∀ a b x g y g', tsAt c.res c.sync.bpms a 0 = .ok (x, g) → tsAt c.res c.sync.bpms b 0 = .ok (y, g') →
      bounds c last (.tick a) (.tick b) = .ok (x, y)) ∧
    (∀ b y g', tsAt c.res c.sync.bpms b 0 = .ok (y, g') → bounds c last .omitted (.tick b) = .ok (0, y)) :=
  @Chartparse.Rate.bounds_spec

/-- every failure of the rate query inside the typed overloads is a ValueError -/
theorem C16_err :
    ∀ (notes : List Int) (s e : Int) (err : PyErr) (h : npsCore notes s e = .error err),
    err = .valueError :=
  @Chartparse.Rate.npsCore_err

/-- non-vacuity: three notes at 0 s, 1 s, 2 s; the closed interval [1 s, 2 s] holds two of them: 2 notes / 1 s -/
example : (npsCore [0, 1000000, 2000000] 1000000 2000000).toOption = some 2 ∧
    (npsCore [0, 1000000, 2000000] 2000000 2000000).toOption = none := by decide +kernel

end Chartparse.Props.C16
