import Chartparse.Proofs.NpsProofs
/-! Property theorems of C16 (statements only; helper lemmas live in `Proofs/`). -/
namespace Chartparse.Props.C16
open Chartparse Chartparse.Rate Chartparse.F64

/-- closedness at both ends, stated on the count -/
theorem count_closed :
    ∀ (notes : List Int) (s e t : Int) (ht : t ∈ notes) (h1 : s ≤ t) (h2 : t ≤ e),
    0 < count notes s e :=
  @Chartparse.Rate.count_closed

theorem nps_nonpositive :
    ∀ (notes : List Int) (s e : Int) (h : e ≤ s),
    npsCore notes s e = .error .valueError :=
  @Chartparse.Rate.nps_nonpositive

/-- the value is count / seconds up to two roundings and one inversion: relative error ≤ 3·2⁻⁵³ -/
theorem nps_value :
    ∀ (notes : List Int) (s e : Int) (h : s < e) (hc : 0 < count notes s e),
    ∃ v, npsCore notes s e = .ok v ∧
      R (3 * u) v ((count notes s e : Rat) / (((e - s : Int) : Rat) / 1000000)) :=
  @Chartparse.Rate.nps_value

end Chartparse.Props.C16
