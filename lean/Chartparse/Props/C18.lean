import Chartparse.Proofs.RenderProofs
import Chartparse.Proofs.C18Proofs
/-! Property theorems of C18 (statements only; helper lemmas live in `Proofs/`). -/
namespace Chartparse.Props.C18
open Chartparse

/-- C18: for every text and every selection, parsing returns a chart or a documented error -/
theorem C18_total :
    ∀ (text : Str) (want : Option (List (Nat × Nat))),
    NI (parseChart text want) :=
  @Chartparse.parseChart_ni

theorem C18_total_path :
    ∀ (decoded : Str) (want : Option (List (Nat × Nat))),
    NI (parsePath decoded want) :=
  @Chartparse.parsePath_ni

/-- every modelled rendering of every chart succeeds or fails with a documented class — never an internal error -/
theorem C18_render_partial :
    ∀ (c : Chart) (tracks : List RoutedTrack),
    NI (Render.renderAll c tracks) :=
  @Chartparse.Render.renderAll_ni

/-- the state-letter table covers every `HOPOState` member (obligation on the regenerated enum) -/
theorem gen_hopo_letters :
    Render.hopoLetter .strum = .ok (cp "S") ∧ Render.hopoLetter .hopo = .ok (cp "H") ∧ Render.hopoLetter .tap = .ok (cp "T") :=
  @Chartparse.Render.hopoLetter_ok

/-- non-vacuity: the docstring example of NoteEvent — tick 816 at 2.09375 s, yellow, HOPO -/
example : (Render.noteEvStr ⟨816, 2093750, 2093750, 0, [false, false, true, false, false], .ticks 0, .hopo, none⟩).toOption =
    some (cp "NoteEvent(t@0000816): 0:00:02.093750: sustain=0: Note.Y [hopo_state=H]") := by decide

end Chartparse.Props.C18
