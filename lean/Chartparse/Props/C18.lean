import Chartparse.Proofs.C18Proofs
/-! Property theorems of C18 (statements only; helper lemmas live in `Proofs/`). -/
namespace Chartparse.Props.C18
open Chartparse

/-- C18: for every text and every selection, parsing returns a chart or a documented error -/
theorem C18_total :
    ∀ (text : Str) (want : Option (List (Nat × Nat))),
    NI (parseChart text want) :=
  @Chartparse.parseChart_ni

theorem C18_total_path :
    ∀ (decoded : Str) (want : Option (List (Nat × Nat))),
    NI (parsePath decoded want) :=
  @Chartparse.parsePath_ni

end Chartparse.Props.C18
