import Chartparse.Proofs.ReFieldInv
import Chartparse.Proofs.ReNorm
/-! Property theorems of C10 (statements only; helper lemmas live in `Proofs/`). -/
namespace Chartparse.Props.C10
open Chartparse Chartparse.Rx

/-- C10: a quoted string value is captured verbatim — inner quotes, blanks, `=`, other field names included -/
theorem field_str_verbatim :
    ∀ (a : Nat) (name' p v q : Str) (ha : CSet.space.test a = false)
    (hp : AllIn .space p) (hv : AllIn .any v) (hv0 : v ≠ []) (hq : AllIn .space q),
    (fieldStrRe (a :: name')).matchGroups (p ++ ((a :: name') ++ [32, 61, 32] ++ (34 :: (v ++ (34 :: q)))))
      = some [(1, v)] :=
  @Chartparse.Rx.field_str_verbatim

/-- C10: whatever a field recogniser accepts starts (after blanks) with `<Name> = ` -/
theorem field_prefix :
    ∀ (name : Str) (s : Str) (caps : Caps) (h : (fieldStrRe name).matchGroups s = some caps),
    ∃ p rest, s = p ++ (name ++ [32, 61, 32]) ++ rest ∧ AllIn .space p :=
  @Chartparse.Rx.field_prefix

/-- C10, non-interference: a line claimed by one field is never claimed by a field with another name.
    Names are non-empty, start with a non-blank and contain no blank (an obligation on the generated table). -/
theorem field_disjoint :
    ∀ (a a' : Nat) (n n' : Str) (s : Str) (c c' : Caps)
    (ha : CSet.space.test a = false) (ha' : CSet.space.test a' = false)
    (hn : ∀ x ∈ a :: n, x ≠ 32) (hn' : ∀ x ∈ a' :: n', x ≠ 32)
    (h : (fieldStrRe (a :: n)).matchGroups s = some c) (h' : (fieldStrRe (a' :: n')).matchGroups s = some c'),
    a :: n = a' :: n' :=
  @Chartparse.Rx.field_disjoint

end Chartparse.Props.C10
