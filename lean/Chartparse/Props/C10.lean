import Chartparse.Proofs.ReFieldInv
import Chartparse.Proofs.ReFieldAccept
import Chartparse.Proofs.IntOf
import Chartparse.Proofs.ReNorm
import Chartparse.Proofs.MetaProofs
/-! Property theorems of C10 (statements only; helper lemmas live in `Proofs/`). -/
namespace Chartparse.Props.C10
open Chartparse Chartparse.Rx Chartparse.Meta

/-- C10: a quoted string value is captured verbatim — inner quotes, blanks, `=`, other field names included -/
theorem field_str_verbatim :
    ∀ (a : Nat) (name' p v q : Str) (ha : CSet.space.test a = false)
    (hp : AllIn .space p) (hv : AllIn .any v) (hv0 : v ≠ []) (hq : AllIn .space q),
    (fieldStrRe (a :: name')).matchGroups (p ++ ((a :: name') ++ [32, 61, 32] ++ (34 :: (v ++ (34 :: q)))))
      = some [(1, v)] :=
  @Chartparse.Rx.field_str_verbatim

/-- C10: whatever a field recogniser (any value class) accepts starts, after blanks, with `<Name> = ` -/
theorem field_prefix :
    ∀ (vs : CSet) (name : Str) (s : Str) (caps : Caps) (h : (fieldRe vs name).matchGroups s = some caps),
    ∃ p rest, s = p ++ (name ++ [32, 61, 32]) ++ rest ∧ AllIn .space p :=
  @Chartparse.Rx.field_prefix

/-- C10, non-interference for all strings: a line claimed by one field is never claimed by a field with another
    name, whatever the two value classes. Names are non-empty, start with a non-blank and contain no blank
    (an obligation on the generated table, `gen_fields`). -/
theorem field_disjoint :
    ∀ (a a' : Nat) (n n' : Str) (s : Str) (c c' : Caps)
    (ha : CSet.space.test a = false) (ha' : CSet.space.test a' = false)
    (hn : ∀ x ∈ a :: n, x ≠ 32) (hn' : ∀ x ∈ a' :: n', x ≠ 32) (vs vs' : CSet)
    (h : (fieldRe vs (a :: n)).matchGroups s = some c) (h' : (fieldRe vs' (a' :: n')).matchGroups s = some c'),
    a :: n = a' :: n' :=
  @Chartparse.Rx.field_disjoint

/-- value class of a field by its processing function: int ↦ `\\d`, str ↦ `.`, Player2 ↦ `[^"]` -/
def vsOf (proc : Nat) : CSet := if proc = 0 then .digit else if proc = 1 then .any else .notLit 34

/-- obligation on the regenerated field table: 24 recognisers, each with the normal form of the factory template for
    its own Pascal name and value class; names non-empty, blank-free, starting with a non-blank, pairwise distinct -/
def fieldsOK : Bool :=
  Gen.fields.length == 24 &&
  Gen.fields.all (fun f => (reOfField f.1).norm == (fieldRe (vsOf f.2.2.1) f.2.1).norm) &&
  Gen.fields.all (fun f => match f.2.1 with
    | [] => false
    | a :: n => !(CSet.space.test a) && (a :: n).all (· != 32)) &&
  (Gen.fields.map (·.2.1)).Nodup

theorem gen_fields : fieldsOK = true := by decide

/-- C10, non-interference for the shipped recognisers: two different fields of the table never match the same string -/
theorem C10_noninterference (f f' : String × Str × Nat × Gen.Default) (hf : f ∈ Gen.fields) (hf' : f' ∈ Gen.fields)
    (hne : f.2.1 ≠ f'.2.1) (s : Str) (c c' : Caps)
    (h : (reOfField f.1).matchGroups s = some c) (h' : (reOfField f'.1).matchGroups s = some c') : False := by
  have hg := gen_fields
  unfold fieldsOK at hg
  simp only [Bool.and_eq_true, List.all_eq_true] at hg
  obtain ⟨⟨⟨_, hnorm⟩, hname⟩, _⟩ := hg
  have e := hnorm f hf
  have e' := hnorm f' hf'
  simp only [beq_iff_eq] at e e'
  rw [matchGroups_of_norm_eq e] at h
  rw [matchGroups_of_norm_eq e'] at h'
  have n1 := hname f hf
  have n2 := hname f' hf'
  cases hn : f.2.1 with
  | nil => rw [hn] at n1; cases n1
  | cons a n =>
    cases hn' : f'.2.1 with
    | nil => rw [hn'] at n2; cases n2
    | cons a' n' =>
      rw [hn] at n1 h; rw [hn'] at n2 h'
      simp only [Bool.and_eq_true, Bool.not_eq_true', List.all_eq_true, bne_iff_ne] at n1 n2
      have := Chartparse.Rx.field_disjoint a a' n n' s c c' n1.1 n2.1 n1.2 n2.2 _ _ h h'
      rw [hn, hn'] at hne
      exact hne this

/-- C10, order independence: any permutation of the [Song] lines gives the same metadata when no field has two
    matching lines -/
theorem C10_order :
    ∀ {l l' : List Str} (hp : l.Perm l')
    (huniq : ∀ f ∈ Gen.fields, ∀ x ∈ l, ∀ y ∈ l, (((reOfField f.1).matchGroups x).bind (grp · 1)).isSome = true →
      (((reOfField f.1).matchGroups y).bind (grp · 1)).isSome = true → x = y),
    parseMeta l = parseMeta l' :=
  @Chartparse.Meta.parseMeta_perm

/-- C10: the documented defaults, as regenerated from the dataclass: offset 0, player2 BASS, difficulty 0, preview
    start/end 0, genre "rock", media type "cd", the sixteen remaining string fields absent, resolution required -/
theorem C10_defaults :
    Gen.fields.map (fun f => (f.1, f.2.2.2)) =
      [("resolution", .required), ("offset", .int 0), ("player2", .p2 (cp "bass")), ("difficulty", .int 0),
       ("preview_start", .int 0), ("preview_end", .int 0), ("genre", .str (cp "rock")), ("media_type", .str (cp "cd")),
       ("name", .none), ("artist", .none), ("charter", .none), ("album", .none), ("year", .none),
       ("music_stream", .none), ("guitar_stream", .none), ("rhythm_stream", .none), ("bass_stream", .none),
       ("drum_stream", .none), ("drum2_stream", .none), ("drum3_stream", .none), ("drum4_stream", .none),
       ("vocal_stream", .none), ("keys_stream", .none), ("crowd_stream", .none)] := by decide

/-- C10: an absent field takes its default (absent = no line matches its recogniser) -/
theorem C10_absent :
    ∀ (lines : List Str) (f : String × Str × Nat × Gen.Default)
    (h : ∀ l ∈ lines, (reOfField f.1).matchGroups l = none),
    parseField lines f = ofDefault f.2.2.2 :=
  @Chartparse.Meta.parseField_absent

/-- C10: without a Resolution line the parse raises MissingRequiredField -/
theorem C10_required (lines : List Str) (h : ∀ l ∈ lines, (reOfField "resolution").matchGroups l = none) :
    parseMeta lines = .error .missingRequiredField := by
  have e : Gen.fields = ("resolution", cp "Resolution", 0, .required) :: Gen.fields.tail := by decide
  unfold parseMeta
  rw [e]
  simp only [parseFields]
  rw [parseField_absent lines _ h]
  rfl


/-- what `gen_fields` gives for one member of the table -/
theorem field_facts (f : String × Str × Nat × Gen.Default) (hf : f ∈ Gen.fields) :
    ∃ a n, f.2.1 = a :: n ∧ CSet.space.test a = false ∧
      ∀ s, (reOfField f.1).matchGroups s = (fieldRe (vsOf f.2.2.1) (a :: n)).matchGroups s := by
  have hg := gen_fields
  unfold fieldsOK at hg
  simp only [Bool.and_eq_true, List.all_eq_true] at hg
  obtain ⟨⟨⟨_, hnorm⟩, hname⟩, _⟩ := hg
  have e := hnorm f hf
  have n1 := hname f hf
  simp only [beq_iff_eq] at e
  cases hn : f.2.1 with
  | nil => rw [hn] at n1; cases n1
  | cons a n =>
    rw [hn] at n1 e
    simp only [Bool.and_eq_true, Bool.not_eq_true'] at n1
    exact ⟨a, n, rfl, n1.1, fun s => by rw [matchGroups_of_norm_eq e]⟩

/-- **C10, quoted values, every shipped field**: on the line `<blanks>Name = "<v>"<blanks>` the field's recogniser captures
    `v` verbatim (for string fields `v` is arbitrary text — quotes, `=`, other field names, blanks, non-ASCII; for numeric
    fields digits; for Player2 quote-free text) — one pair of surrounding quotes removed, nothing else -/
theorem C10_quoted (f : String × Str × Nat × Gen.Default) (hf : f ∈ Gen.fields) (p v q : Str)
    (hp : AllIn .space p) (hv : AllIn (vsOf f.2.2.1) v) (hv0 : v ≠ []) (hq : AllIn .space q) :
    (reOfField f.1).matchGroups (p ++ (f.2.1 ++ [32, 61, 32] ++ (34 :: (v ++ (34 :: q))))) = some [(1, v)] := by
  obtain ⟨a, n, hn, ha, he⟩ := field_facts f hf
  rw [he, hn]; exact Chartparse.Rx.field_quoted_verbatim _ a n p v q ha hp hv hv0 hq

/-- **C10, unquoted values, every shipped field**: `<blanks>Name = <v><blanks>` with a quote-free `v` not ending in a blank -/
theorem C10_unquoted (f : String × Str × Nat × Gen.Default) (hf : f ∈ Gen.fields) (p v q : Str)
    (hp : AllIn .space p) (hv : AllIn (vsOf f.2.2.1) v) (hv0 : v ≠ []) (hnq : ∀ x ∈ v, x ≠ 34)
    (hlast : ∀ x, v.getLast? = some x → CSet.space.test x = false) (hq : AllIn .space q) :
    (reOfField f.1).matchGroups (p ++ (f.2.1 ++ [32, 61, 32] ++ (v ++ q))) = some [(1, v)] := by
  obtain ⟨a, n, hn, ha, he⟩ := field_facts f hf
  rw [he, hn]; exact Chartparse.Rx.field_unquoted _ a n p v q ha hp hv hv0 hnq hlast hq

/-- **C10, the decoded value**: if `l0` is the field's line with captured text `v` and every other [Song] line belongs to a
    *different* shipped field (or to none), the field decodes to `process v` — the other fields' lines have no influence -/
theorem C10_value (f : String × Str × Nat × Gen.Default) (hf : f ∈ Gen.fields) (lines : List Str) (l0 v : Str)
    (hmem : l0 ∈ lines) (hv : (reOfField f.1).matchGroups l0 = some [(1, v)])
    (hothers : ∀ x ∈ lines, x ≠ l0 → (reOfField f.1).matchGroups x = none ∨
        ∃ f' ∈ Gen.fields, f'.2.1 ≠ f.2.1 ∧ ((reOfField f'.1).matchGroups x).isSome = true) :
    parseField lines f = process f.2.2.1 v := by
  apply parseField_present lines f l0 v hmem
  · rw [hv]; rfl
  · intro x hx hsome
    by_cases hne : x = l0
    · exact hne
    exfalso
    rcases hothers x hx hne with h | ⟨f', hf', hname, h'⟩
    · rw [h] at hsome; cases hsome
    · cases hm : (reOfField f.1).matchGroups x with
      | none => rw [hm] at hsome; cases hsome
      | some c =>
        cases hm' : (reOfField f'.1).matchGroups x with
        | none => rw [hm'] at h'; cases h'
        | some c' => exact C10_noninterference f' f hf' hf hname x c' c hm' hm

/-- **C10, numeric fields become integers**: the decimal rendering of any `n`, quoted or not, decodes to `n` -/
theorem C10_int (f : String × Str × Nat × Gen.Default) (hf : f ∈ Gen.fields) (hproc : f.2.2.1 = 0) (fuel n : Nat)
    (hn : n < 10 ^ fuel) (hfuel : 0 < fuel) (v : Str) (hv : v = render fuel n) (l0 : Str) (lines : List Str) (hmem : l0 ∈ lines)
    (hm : (reOfField f.1).matchGroups l0 = some [(1, v)])
    (hothers : ∀ x ∈ lines, x ≠ l0 → (reOfField f.1).matchGroups x = none ∨
        ∃ f' ∈ Gen.fields, f'.2.1 ≠ f.2.1 ∧ ((reOfField f'.1).matchGroups x).isSome = true) :
    parseField lines f = .ok (.int n) := by
  rw [C10_value f hf lines l0 v hmem hm hothers, hproc, hv]
  simp only [process, if_pos]
  rw [Chartparse.Rx.intOf_render fuel n hn]

/-- non-vacuity: a quoted name with inner quotes and `=`; the int field with Devanagari digits -/
example : firstMatch (reOfField "name") [cp "  Album = \"x\"", cp "\tName = \"a \"b\" = c\"  "] = some (cp "a \"b\" = c") := by
  decide
example : (match parseField [cp "Offset = १२"] ("offset", cp "Offset", 0, .int 0) with | .ok (.int 12) => true | _ => false) = true := by
  decide

/-- non-vacuity of `C10_unquoted` / `C10_quoted` / `C10_int`: a member of the table and concrete lines -/
example : ("offset", cp "Offset", 0, Gen.Default.int 0) ∈ Gen.fields := by decide
example : (reOfField "offset").matchGroups (cp " Offset = 120 ") = some [(1, cp "120")] := by decide
example : (reOfField "charter").matchGroups (cp "Charter = \"a \"b\" = Name\"") = some [(1, cp "a \"b\" = Name")] := by decide

end Chartparse.Props.C10
