import Chartparse.Proofs.ChartCompose
import Chartparse.Proofs.SustainProofs
import Chartparse.Proofs.RateProofs
import Chartparse.Proofs.TrackProofs
import Chartparse.Proofs.InstProofs
/-! Property theorems of C03 (statements only; helper lemmas live in `Proofs/`). -/
namespace Chartparse.Props.C03
open Chartparse Chartparse.Inst Chartparse.Tempo

theorem refine_none :
    ∀ (l : List (Option Nat)) (h : ∀ d ∈ l, d = none),
    refine l = .ticks 0 :=
  @Chartparse.Inst.refine_none

/-- one number when all present lanes agree -/
theorem C03_scalar :
    ∀ (l : List (Option Nat)) (s : Nat) (hall : ∀ d ∈ l, d = none ∨ d = some s)
    (hsome : some s ∈ l),
    refine l = .ticks s :=
  @Chartparse.Inst.refine_uniform

/-- the tuple itself when two present lanes differ -/
theorem C03_tuple :
    ∀ (l : List (Option Nat)) (a b : Nat) (ha : some a ∈ l) (hb : some b ∈ l) (hab : a ≠ b),
    refine l = .tuple l :=
  @Chartparse.Inst.refine_mixed

/-- an open note reports its own length, whatever flag lines follow it -/
theorem C03_open :
    ∀ (d : NDatum) (rest : List NDatum) (h : d.idx = 7),
    complexSustain (d :: rest) = .ok (.ticks d.sus) :=
  @Chartparse.Inst.sustain_open

/-- flag lines (indices 5 and 6, and 7) never enter the per-lane list -/
theorem C03_flags :
    ∀ (g : List NDatum) (d : NDatum) (h : 4 < d.idx),
    fill (g ++ [d]) = fill g :=
  @Chartparse.Inst.fill_flag

/-- **C03 (track)**: every note's sustain is `complex_sustain` of its own group -/
theorem C03_track :
    ∀ {res evs sps gs prev b s ns} (h : NotesOf res evs sps gs prev b s ns),
    gs.map complexSustain = ns.map (fun n => .ok n.sustain) :=
  @Chartparse.Inst.notes_sustain

/-- non-vacuity: two lanes with different lengths give the five-slot tuple; equal lengths one number; open its own -/
example : (complexSustain [⟨0, 0, 100⟩, ⟨0, 2, 0⟩, ⟨0, 6, 7⟩]).toOption = some (.tuple [some 100, none, some 0, none, none]) ∧
    (complexSustain [⟨0, 1, 50⟩, ⟨0, 4, 50⟩, ⟨0, 5, 9⟩]).toOption = some (.ticks 50) ∧
    (complexSustain [⟨0, 7, 33⟩, ⟨0, 5, 0⟩]).toOption = some (.ticks 33) := by decide

/-- **C03 (last note end)**: absent exactly when the track has no notes; otherwise the maximum end timestamp over all
    its notes (attained by one of them) -/
theorem C03_last :
    ∀ (ns : List NoteEv),
    (lastNoteEnd ns = none ↔ ns = []) ∧
    ∀ m, lastNoteEnd ns = some m → (∀ n ∈ ns, n.endTs ≤ m) ∧ ∃ n ∈ ns, n.endTs = m :=
  @Chartparse.Inst.lastNoteEnd_spec

/-- the per-lane list always has the five lane slots -/
theorem C03_slots :
    ∀ (g : List NDatum),
    (fill g).length = 5 :=
  @Chartparse.Inst.fill_length

/-- **C03, the per-lane list**: slot `i` (0..4) holds the length written on the *last* line of the group for lane `i`,
    and nothing when the group has no line for that lane; lines with index 5, 6, 7 never appear in it -/
theorem C03_lane_length :
    ∀ (g : List NDatum) (i : Nat) (hi : i ≤ 4),
    (fill g)[i]? = some (((g.filter (fun d => d.idx == i)).getLast?).map (·.sus)) :=
  @Chartparse.Inst.fill_spec

/-- a slot is occupied exactly when the lane is active -/
theorem C03_inactive_none :
    ∀ (g : List NDatum) (i : Nat) (hi : i ≤ 4),
    ((fill g)[i]?.bind id).isSome = (g.any fun d => d.idx == i) :=
  @Chartparse.Inst.fill_active

/-- **C03, longest sustain of a tuple** is the maximum over the occupied slots (attained) -/
theorem C03_longest_tuple :
    ∀ (l : List (Option Nat)) (m : Nat) (h : longest (.tuple l) = .ok m),
    (∀ x, some x ∈ l → x ≤ m) ∧ some m ∈ l :=
  @Chartparse.Inst.longest_tuple

/-- **C03, longest sustain of whatever `refine` reports**: always defined; the maximum lane length, attained by an active
    lane — or zero when no lane is active -/
theorem C03_longest :
    ∀ (l : List (Option Nat)),
    ∃ m, longest (refine l) = .ok m ∧ (∀ x, some x ∈ l → x ≤ m) ∧ (some m ∈ l ∨ (m = 0 ∧ ∀ d ∈ l, d = none)) :=
  @Chartparse.Inst.longest_refine

/-- **C03, end of a note**: for every note the track builder returns on a map the code accepts, the end tick is
    `tick + longest sustain`, the end timestamp is the (hint-free) tempo-map time of that end tick, and it is never
    before the start timestamp -/
theorem C03_end :
    ∀ (res : Nat) (raw : List (Nat × Rat)) (evs : List BpmEv) (hb : buildMap (res : Int) raw = .ok evs)
    (sps : List Phrase) (g : List NDatum) (prev : Option NoteEv) (bidx sidx : Nat) (r : NoteEv × Nat × Nat)
    (h : buildNote (res : Int) evs sps g prev bidx sidx = .ok r),
    ∃ lg ge, longest r.1.sustain = .ok lg ∧
      tsAt (res : Int) evs ((r.1.tick + lg : Nat) : Int) 0 = .ok (r.1.endTs, ge) ∧
      tsAt (res : Int) evs (r.1.tick : Int) 0 = .ok (r.1.ts, r.1.idx) ∧
      r.1.ts ≤ r.1.endTs :=
  @Chartparse.Inst.note_end_spec

/-- non-vacuity of `C03_end`: a sustained note across a tempo change on an accepted map -/
example : (match buildMap 192 [(0, 120), (100, 240)] with
    | .ok evs => (match buildNote 192 evs [] [⟨50, 0, 100⟩, ⟨50, 3, 20⟩] none 0 0 with
        | .ok r => decide (r.1.ts < r.1.endTs) && (r.1.sustain == .tuple [some 100, none, none, some 20, none])
        | _ => false)
    | _ => false) = true := by decide +kernel

/-- **the notes of every track of every returned chart** are `buildNotes` of the tick groups of the N lines of one of the
    text's own instrument sections, against that section's own S lines, the chart's resolution and the chart's tempo map,
    starting with no previous note and both cursors at zero — so `NotesOf` holds and with it every track-level theorem
    (C02 ticks/lanes, C03 sustains, C04 HOPO rule, C05 star power, C11 timestamps) -/
theorem C03_chart :
    ∀ (secs : Sections) (want : Option (List (Nat × Nat))) (c : Chart)
    (h : parseSections secs want = .ok c) (rt : RoutedTrack) (hrt : rt ∈ c.tracks),
    ∃ tag lines, (tag, lines) ∈ secs ∧ (routeOf tag).isSome = true ∧
      buildNotes c.res c.sync.bpms (sectionPhrases lines) (groups (sectionNotes lines)) none 0 0 = .ok rt.track.notes ∧
      NotesOf c.res c.sync.bpms (sectionPhrases lines) (groups (sectionNotes lines)) none 0 0 rt.track.notes :=
  @Chartparse.chart_track_notes

/-- the listed known finding `flag-before-open`, as a kernel-checked witness on the model: with the flag line written first,
    the open note's written length is lost (and `C03_open` above needs the open line to be first) -/
theorem open_after_flag_loses_length :
    complexSustain [⟨48, 5, 0⟩, ⟨48, 7, 100⟩] = .ok (.ticks 0) ∧ complexSustain [⟨48, 7, 100⟩, ⟨48, 5, 0⟩] = .ok (.ticks 100) := by
  decide

end Chartparse.Props.C03
