import Chartparse.Proofs.InstProofs
/-! Property theorems of C03 (statements only; helper lemmas live in `Proofs/`). -/
namespace Chartparse.Props.C03
open Chartparse Chartparse.Inst

theorem refine_none :
    ∀ (l : List (Option Nat)) (h : ∀ d ∈ l, d = none),
    refine l = .ticks 0 :=
  @Chartparse.Inst.refine_none

/-- one number when all present lanes agree -/
theorem C03_scalar :
    ∀ (l : List (Option Nat)) (s : Nat) (hall : ∀ d ∈ l, d = none ∨ d = some s)
    (hsome : some s ∈ l),
    refine l = .ticks s :=
  @Chartparse.Inst.refine_uniform

/-- the tuple itself when two present lanes differ -/
theorem C03_tuple :
    ∀ (l : List (Option Nat)) (a b : Nat) (ha : some a ∈ l) (hb : some b ∈ l) (hab : a ≠ b),
    refine l = .tuple l :=
  @Chartparse.Inst.refine_mixed

/-- an open note reports its own length, whatever flag lines follow it -/
theorem C03_open :
    ∀ (d : NDatum) (rest : List NDatum) (h : d.idx = 7),
    complexSustain (d :: rest) = .ok (.ticks d.sus) :=
  @Chartparse.Inst.sustain_open

/-- flag lines (indices 5 and 6, and 7) never enter the per-lane list -/
theorem C03_flags :
    ∀ (g : List NDatum) (d : NDatum) (h : 4 < d.idx),
    fill (g ++ [d]) = fill g :=
  @Chartparse.Inst.fill_flag

end Chartparse.Props.C03
