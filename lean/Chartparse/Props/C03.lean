import Chartparse.Proofs.RateProofs
import Chartparse.Proofs.TrackProofs
import Chartparse.Proofs.InstProofs
/-! Property theorems of C03 (statements only; helper lemmas live in `Proofs/`). -/
namespace Chartparse.Props.C03
open Chartparse Chartparse.Inst Chartparse.Tempo

theorem refine_none :
    ∀ (l : List (Option Nat)) (h : ∀ d ∈ l, d = none),
    refine l = .ticks 0 :=
  @Chartparse.Inst.refine_none

/-- one number when all present lanes agree -/
theorem C03_scalar :
    ∀ (l : List (Option Nat)) (s : Nat) (hall : ∀ d ∈ l, d = none ∨ d = some s)
    (hsome : some s ∈ l),
    refine l = .ticks s :=
  @Chartparse.Inst.refine_uniform

/-- the tuple itself when two present lanes differ -/
theorem C03_tuple :
    ∀ (l : List (Option Nat)) (a b : Nat) (ha : some a ∈ l) (hb : some b ∈ l) (hab : a ≠ b),
    refine l = .tuple l :=
  @Chartparse.Inst.refine_mixed

/-- an open note reports its own length, whatever flag lines follow it -/
theorem C03_open :
    ∀ (d : NDatum) (rest : List NDatum) (h : d.idx = 7),
    complexSustain (d :: rest) = .ok (.ticks d.sus) :=
  @Chartparse.Inst.sustain_open

/-- flag lines (indices 5 and 6, and 7) never enter the per-lane list -/
theorem C03_flags :
    ∀ (g : List NDatum) (d : NDatum) (h : 4 < d.idx),
    fill (g ++ [d]) = fill g :=
  @Chartparse.Inst.fill_flag

/-- **C03 (track)**: every note's sustain is `complex_sustain` of its own group -/
theorem C03_track :
    ∀ {res evs sps gs prev b s ns} (h : NotesOf res evs sps gs prev b s ns),
    gs.map complexSustain = ns.map (fun n => .ok n.sustain) :=
  @Chartparse.Inst.notes_sustain

/-- non-vacuity: two lanes with different lengths give the five-slot tuple; equal lengths one number; open its own -/
example : (complexSustain [⟨0, 0, 100⟩, ⟨0, 2, 0⟩, ⟨0, 6, 7⟩]).toOption = some (.tuple [some 100, none, some 0, none, none]) ∧
    (complexSustain [⟨0, 1, 50⟩, ⟨0, 4, 50⟩, ⟨0, 5, 9⟩]).toOption = some (.ticks 50) ∧
    (complexSustain [⟨0, 7, 33⟩, ⟨0, 5, 0⟩]).toOption = some (.ticks 33) := by decide

/-- **C03 (last note end)**: absent exactly when the track has no notes; otherwise the maximum end timestamp over all
    its notes (attained by one of them) -/
theorem C03_last :
    ∀ (ns : List NoteEv),
    (lastNoteEnd ns = none ↔ ns = []) ∧
    ∀ m, lastNoteEnd ns = some m → (∀ n ∈ ns, n.endTs ≤ m) ∧ ∃ n ∈ ns, n.endTs = m :=
  @Chartparse.Inst.lastNoteEnd_spec

end Chartparse.Props.C03
