import Chartparse.Proofs.ReSound
import Chartparse.Proofs.ReDispatch
import Chartparse.Proofs.ReTE
import Chartparse.Proofs.IntOf
import Chartparse.Proofs.ReNorm
import Chartparse.Proofs.ReDisjoint
import Chartparse.Model.Lines
/-! Property theorems of C07 (statements only; helper lemmas live in `Proofs/`). -/
namespace Chartparse.Props.C07
open Chartparse Chartparse.Rx

theorem note_accept :
    ∀ (p t l q : Str) (i : Nat)
    (hp : AllIn .space p) (ht : AllIn .digit t) (ht0 : t ≠ []) (hi : 48 ≤ i ∧ i ≤ 55)
    (hl : AllIn .digit l) (hl0 : l ≠ []) (hq : AllIn .space q),
    noteRe.matchGroups (p ++ (t ++ ([32,61,32,78,32] ++ (i :: 32 :: (l ++ q))))) = some [(3,l),(2,[i]),(1,t)] :=
  @Chartparse.Rx.note_accept

/-- C07, converse direction: whatever the N recogniser accepts has the shape of an N line, and the
    captures are the corresponding substrings -/
theorem note_sound :
    ∀ (s : Str) (caps : Caps) (h : noteRe.matchGroups s = some caps),
    ∃ p t i l q, s = p ++ (t ++ ([32,61,32,78,32] ++ (i :: 32 :: (l ++ q)))) ∧
      AllIn .space p ∧ AllIn .digit t ∧ t ≠ [] ∧ (48 ≤ i ∧ i ≤ 55) ∧ AllIn .digit l ∧ l ≠ [] ∧ AllIn .space q ∧
      caps = [(3, l), (2, [i]), (1, t)] :=
  @Chartparse.Rx.note_sound

/-- C07: `<tick> = E <word>` carries the word verbatim. The value class `[^ ]` overlaps `\s` (tab …), so
    this is a priority argument: the lazy value cannot stop while a non-blank character of the word remains. -/
theorem te_accept :
    ∀ (p t w q : Str) (hp : AllIn .space p) (ht : AllIn .digit t) (ht0 : t ≠ [])
    (hw : ∀ c ∈ w, CSet.space.test c = false) (hq : AllIn .space q),
    teRe.matchGroups (p ++ (t ++ ([32, 61, 32, 69, 32] ++ (w ++ q)))) = some [(2, w), (1, t)] :=
  @Chartparse.Rx.te_accept

/-- the round trip: any `n`, any sufficient fuel -/
theorem intOf_render :
    ∀ (fuel n : Nat) (h : n < 10 ^ fuel),
    intOf (render fuel n) = n :=
  @Chartparse.Rx.intOf_render

/-- leading zeros do not change the value -/
theorem intOf_lead0 :
    ∀ (ds : Str),
    intOf (48 :: ds) = intOf ds :=
  @Chartparse.Rx.intOf_lead0

/-! ### obligations: the recognisers regenerated from /repo have the normal forms of the templates above -/

theorem gen_note_is_template : Gen.noteRe.norm = noteRe.norm := by decide
theorem gen_sp_is_template : Gen.spRe.norm = spT.norm := by decide
theorem gen_te_is_template : Gen.teRe.norm = teRe.norm := by decide

/-- every index the N recogniser lets through is a member of `NoteTrackIndex`, and `is_5_note` is `value ≤ 4` -/
theorem gen_index_table_total :
    (List.range 8).all (fun i => Gen.noteTrackIndex.any (·.1 == i)) = true ∧
    Gen.noteTrackIndex.all (fun e => e.2.2 == decide (e.1 ≤ 4)) = true := by decide

/-! ### the same theorems for the shipped recognisers -/

/-- C07: every canonical N line — any digit strings (any `\d` script), any `\s` padding — is accepted with
    exactly its three captures -/
theorem C07_note_accept (p t l q : Str) (i : Nat)
    (hp : AllIn .space p) (ht : AllIn .digit t) (ht0 : t ≠ []) (hi : 48 ≤ i ∧ i ≤ 55)
    (hl : AllIn .digit l) (hl0 : l ≠ []) (hq : AllIn .space q) :
    Gen.noteRe.matchGroups (p ++ (t ++ ([32,61,32,78,32] ++ (i :: 32 :: (l ++ q))))) = some [(3,l),(2,[i]),(1,t)] := by
  rw [matchGroups_of_norm_eq gen_note_is_template]; exact Chartparse.Rx.note_accept p t l q i hp ht ht0 hi hl hl0 hq

/-- C07: … and nothing else is: whatever the shipped N recogniser accepts has that shape (so `N 8 …`, `S 64 …`,
    a missing tick, a missing ` = ` are rejected) -/
theorem C07_note_sound (s : Str) (caps : Caps) (h : Gen.noteRe.matchGroups s = some caps) :
    ∃ p t i l q, s = p ++ (t ++ ([32,61,32,78,32] ++ (i :: 32 :: (l ++ q)))) ∧
      AllIn .space p ∧ AllIn .digit t ∧ t ≠ [] ∧ (48 ≤ i ∧ i ≤ 55) ∧ AllIn .digit l ∧ l ≠ [] ∧ AllIn .space q ∧
      caps = [(3, l), (2, [i]), (1, t)] := by
  rw [matchGroups_of_norm_eq gen_note_is_template] at h; exact Chartparse.Rx.note_sound s caps h

/-- C07: the decoder built on the shipped recogniser yields exactly the written integers -/
theorem C07_note_decode (p t l q : Str) (i : Nat)
    (hp : AllIn .space p) (ht : AllIn .digit t) (ht0 : t ≠ []) (hi : 48 ≤ i ∧ i ≤ 55)
    (hl : AllIn .digit l) (hl0 : l ≠ []) (hq : AllIn .space q) :
    decodeKind 0 (p ++ (t ++ ([32,61,32,78,32] ++ (i :: 32 :: (l ++ q))))) = some (.note (intOf t) (intOf [i]) (intOf l)) := by
  simp only [decodeKind, kindRe]
  rw [C07_note_accept p t l q i hp ht ht0 hi hl hl0 hq]
  simp [grpD, grp]

theorem C07_sp_accept (p t l q : Str) (hp : AllIn .space p) (ht : AllIn .digit t) (ht0 : t ≠ [])
    (hl : AllIn .digit l) (hl0 : l ≠ []) (hq : AllIn .space q) :
    Gen.spRe.matchGroups (p ++ (t ++ ([32, 61, 32, 83, 32, 50, 32] ++ (l ++ q)))) = some [(2, l), (1, t)] := by
  rw [matchGroups_of_norm_eq gen_sp_is_template]; exact Chartparse.Rx.sp_accept p t l q hp ht ht0 hl hl0 hq

theorem C07_te_accept (p t w q : Str) (hp : AllIn .space p) (ht : AllIn .digit t) (ht0 : t ≠ [])
    (hw : ∀ c ∈ w, CSet.space.test c = false) (hq : AllIn .space q) :
    Gen.teRe.matchGroups (p ++ (t ++ ([32, 61, 32, 69, 32] ++ (w ++ q)))) = some [(2, w), (1, t)] := by
  rw [matchGroups_of_norm_eq gen_te_is_template]; exact Chartparse.Rx.te_accept p t w q hp ht ht0 hw hq

/-- **C07, named rejection**: `<tick> = S 64 …` (and every `S <k> …` with `k ≠ 2`-prefix) never produces a star-power
    phrase: the shipped recogniser's literal is `S 2 ` -/
theorem C07_S64_rejected (p t rest : Str) (hp : AllIn .space p) (ht : AllIn .digit t) (ht0 : t ≠ []) :
    Gen.spRe.matchGroups (p ++ (t ++ ([32, 61, 32, 83, 32, 54, 52] ++ rest))) = none := by
  rw [matchGroups_of_norm_eq gen_sp_is_template]
  unfold spT
  have := ev_reject [83, 32, 50, 32] (digitsTail 2) p t ([83, 32, 54, 52] ++ rest) hp ht ht0 (by
    rintro ⟨r, hr⟩; simp at hr)
  simpa using this

/-- **C07, named rejection**: `<tick> = N 8 …` (any index character outside `0..7`) never produces a note datum -/
theorem C07_N8_rejected (p t rest : Str) (c : Nat) (hp : AllIn .space p) (ht : AllIn .digit t) (ht0 : t ≠ [])
    (hc : c < 48 ∨ 55 < c) :
    Gen.noteRe.matchGroups (p ++ (t ++ ([32, 61, 32, 78, 32] ++ (c :: rest)))) = none := by
  cases h : Gen.noteRe.matchGroups (p ++ (t ++ ([32, 61, 32, 78, 32] ++ (c :: rest)))) with
  | none => rfl
  | some caps =>
    exfalso
    obtain ⟨p', t', i, l, q, hs, hp', ht', ht0', hi, _⟩ := C07_note_sound _ _ h
    obtain ⟨d, t1, rfl⟩ := List.exists_cons_of_ne_nil ht0
    obtain ⟨d', t1', rfl⟩ := List.exists_cons_of_ne_nil ht0'
    have hd : CSet.space.test d = false := digit_not_space (ht d (by simp))
    have hd' : CSet.space.test d' = false := digit_not_space (ht' d' (by simp))
    simp only [List.cons_append] at hs
    obtain ⟨_, e2⟩ := run_unique .space p p' d d' _ _ hp hp' hd hd' hs
    have e3 : (d :: t1) ++ 32 :: (61 :: 32 :: 78 :: 32 :: c :: rest) = (d' :: t1') ++ 32 :: (61 :: 32 :: 78 :: 32 :: i :: 32 :: (l ++ q)) := by
      simpa using e2
    obtain ⟨_, e4⟩ := run_unique .digit (d :: t1) (d' :: t1') 32 32 _ _ ht ht' digit_ne_space32 digit_ne_space32 e3
    simp at e4
    omega

/-- **C07, cross-kind rejection**: a line whose letter after ` = ` differs from a recogniser's never matches it: N lines
    are not star power or track events, S lines not notes, B / TS / A lines none of the three -/
theorem C07_other_letter_rejected (b : Nat) (lit' rest p t : Str) (hp : AllIn .space p) (ht : AllIn .digit t) (ht0 : t ≠ []) :
    (b ≠ 78 → Gen.noteRe.matchGroups (p ++ (t ++ (32 :: 61 :: 32 :: (b :: lit') ++ rest))) = none) ∧
    (b ≠ 83 → Gen.spRe.matchGroups (p ++ (t ++ (32 :: 61 :: 32 :: (b :: lit') ++ rest))) = none) ∧
    (b ≠ 69 → Gen.teRe.matchGroups (p ++ (t ++ (32 :: 61 :: 32 :: (b :: lit') ++ rest))) = none) := by
  refine ⟨fun hb => ?_, fun hb => ?_, fun hb => ?_⟩
  · rw [matchGroups_of_norm_eq (gen_note_is_template.trans noteEv_norm.symm)]
    exact ev_reject_other_letter 78 b _ lit' _ p t rest hp ht ht0 (Ne.symm hb)
  · rw [matchGroups_of_norm_eq gen_sp_is_template]
    exact ev_reject_other_letter 83 b _ lit' _ p t rest hp ht ht0 (Ne.symm hb)
  · rw [matchGroups_of_norm_eq (gen_te_is_template.trans teEv_norm.symm)]
    exact ev_reject_other_letter 69 b _ lit' _ p t rest hp ht ht0 (Ne.symm hb)

/-- an ASCII index character decodes to its digit value: `N 0 … N 7` are the indices 0..7 -/
theorem C07_index_value : (List.range 8).all (fun d => intOf [48 + d] == d) = true := by decide

/-- non-vacuity: an N line with a tab, full-width digits and trailing blanks -/
example : decodeKind 0 ([9] ++ ([65297, 50] ++ ([32,61,32,78,32] ++ (55 :: 32 :: ([48, 57] ++ [32, 32])))))
    = some (.note 12 7 9) := by decide

/-- **C07, star power ⇔**: whatever the shipped S recogniser accepts is a canonical `S 2` line, captures as written -/
theorem C07_sp_sound (s : Str) (caps : Caps) (h : Gen.spRe.matchGroups s = some caps) :
    ∃ p t l q, s = p ++ (t ++ ([32, 61, 32, 83, 32, 50, 32] ++ (l ++ q))) ∧ AllIn .space p ∧ AllIn .digit t ∧ t ≠ [] ∧
      AllIn .digit l ∧ l ≠ [] ∧ AllIn .space q ∧ caps = [(2, l), (1, t)] := by
  rw [matchGroups_of_norm_eq gen_sp_is_template] at h; exact Chartparse.Rx.sp_sound s caps h

/-- **C07, track event ⇔**: whatever the shipped E recogniser accepts is `<tick> = E <word>` with a word free of U+0020 -/
theorem C07_te_sound (s : Str) (caps : Caps) (h : Gen.teRe.matchGroups s = some caps) :
    ∃ p t w q, s = p ++ (t ++ ([32, 61, 32, 69, 32] ++ (w ++ q))) ∧ AllIn .space p ∧ AllIn .digit t ∧ t ≠ [] ∧
      AllIn (.notLit 32) w ∧ AllIn .space q ∧ caps = [(2, w), (1, t)] := by
  rw [matchGroups_of_norm_eq (gen_te_is_template.trans teEv_norm.symm)] at h; exact Chartparse.Rx.te_sound s caps h

/-- **C07, named rejection**: `<tick> = E two words` never produces a track event -/
theorem C07_two_words_rejected (p t w1 w2 : Str) (hp : AllIn .space p) (ht : AllIn .digit t) (ht0 : t ≠ [])
    (hw2 : ∃ x ∈ w2, CSet.space.test x = false) :
    Gen.teRe.matchGroups (p ++ (t ++ ([32, 61, 32, 69, 32] ++ (w1 ++ 32 :: w2)))) = none := by
  rw [matchGroups_of_norm_eq (gen_te_is_template.trans teEv_norm.symm)]
  exact Chartparse.Rx.te_two_words_rejected p t w1 w2 hp ht ht0 hw2

end Chartparse.Props.C07
