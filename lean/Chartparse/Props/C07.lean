import Chartparse.Proofs.ReTE
import Chartparse.Proofs.IntOf
import Chartparse.Proofs.ReNorm
/-! Property theorems of C07 (statements only; helper lemmas live in `Proofs/`). -/
namespace Chartparse.Props.C07
open Chartparse Chartparse.Rx

theorem note_accept :
    ∀ (p t l q : Str) (i : Nat)
    (hp : AllIn .space p) (ht : AllIn .digit t) (ht0 : t ≠ []) (hi : 48 ≤ i ∧ i ≤ 55)
    (hl : AllIn .digit l) (hl0 : l ≠ []) (hq : AllIn .space q),
    noteRe.matchGroups (p ++ (t ++ ([32,61,32,78,32] ++ (i :: 32 :: (l ++ q))))) = some [(3,l),(2,[i]),(1,t)] :=
  @Chartparse.Rx.note_accept

/-- C07, converse direction: whatever the N recogniser accepts has the shape of an N line, and the
    captures are the corresponding substrings -/
theorem note_sound :
    ∀ (s : Str) (caps : Caps) (h : noteRe.matchGroups s = some caps),
    ∃ p t i l q, s = p ++ (t ++ ([32,61,32,78,32] ++ (i :: 32 :: (l ++ q)))) ∧
      AllIn .space p ∧ AllIn .digit t ∧ t ≠ [] ∧ (48 ≤ i ∧ i ≤ 55) ∧ AllIn .digit l ∧ l ≠ [] ∧ AllIn .space q ∧
      caps = [(3, l), (2, [i]), (1, t)] :=
  @Chartparse.Rx.note_sound

/-- C07: `<tick> = E <word>` carries the word verbatim. The value class `[^ ]` overlaps `\s` (tab …), so
    this is a priority argument: the lazy value cannot stop while a non-blank character of the word remains. -/
theorem te_accept :
    ∀ (p t w q : Str) (hp : AllIn .space p) (ht : AllIn .digit t) (ht0 : t ≠ [])
    (hw : ∀ c ∈ w, CSet.space.test c = false) (hq : AllIn .space q),
    teRe.matchGroups (p ++ (t ++ ([32, 61, 32, 69, 32] ++ (w ++ q)))) = some [(2, w), (1, t)] :=
  @Chartparse.Rx.te_accept

/-- the round trip: any `n`, any sufficient fuel -/
theorem intOf_render :
    ∀ (fuel n : Nat) (h : n < 10 ^ fuel),
    intOf (render fuel n) = n :=
  @Chartparse.Rx.intOf_render

/-- leading zeros do not change the value -/
theorem intOf_lead0 :
    ∀ (ds : Str),
    intOf (48 :: ds) = intOf ds :=
  @Chartparse.Rx.intOf_lead0

end Chartparse.Props.C07
