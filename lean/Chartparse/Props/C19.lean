import Chartparse.Model.Objects
import Chartparse.Gen.Classes
/-! C19 (partial): read-only operation sequences preserve the observation and twin equality, *given* that the
    track map does not auto-insert and that classes with cached properties compare by their dataclass fields —
    both facts regenerated from the working tree (`Gen/Classes.lean`). What the model cannot exhibit is Python's
    object model itself (that `frozen=True` blocks assignment, that `cached_property` writes only its slot):
    that is exercised on the real objects by the op-sequence correspondence. -/
namespace Chartparse.Props.C19
open Chartparse.Obj

theorem step_observe (c : Chart) (op : Op) :
    observe (step false c op).1 = observe c := by
  cases op with
  | getItem i =>
    simp only [step, lookup1]
    cases c.tracks.find? (·.1 == i) <;> simp [observe]
  | nps i d =>
    simp only [step, lookup1]
    cases hf : c.tracks.find? (·.1 == i) with
    | none => simp [observe]
    | some kv => simp only []; split <;> simp [observe]
  | derived o v => simp [step, observe]
  | pure => simp [step, observe]

/-- with a non-inserting map no sequence of read-only operations changes the observation -/
theorem run_observe (c : Chart) (ops : List Op) : observe (run false c ops) = observe c := by
  induction ops generalizing c with
  | nil => rfl
  | cons op ops ih =>
    show observe (run false (step false c op).1 ops) = observe c
    rw [ih, step_observe]

/-- the class inventory obligation: every class owning a cached property is a frozen dataclass comparing by
    fields (so the cache slot is invisible to `==`), and every event / track / parsed-data class is frozen -/
def cfgOK : Bool :=
  !Chartparse.Gen.trackMapAutoInserts &&
  Chartparse.Gen.classes.all (fun c => c.2.2.2.2.2.isEmpty || (c.2.2.2.1 && c.2.2.2.2.1 == 0)) &&
  Chartparse.Gen.classes.all (fun c =>
    -- eq mode 0 (dataclass field-wise) implies frozen (hash/eq consistency), for the event/track/data classes
    !(c.2.2.2.2.1 == 0 && c.2.1 == 2) || c.2.2.2.1) &&
  Chartparse.Gen.classes.all (fun c =>
    -- … and is decorated *itself*: the `__setattr__` a frozen dataclass generates refuses every name only on instances of exactly
    -- the decorated class; a plain subclass of a frozen dataclass accepts assignment of anything that is not a declared field
    -- (found on the shipped StarPowerEvent / TextEvent / SectionEvent / LyricEvent, repaired by a `fix:` commit)
    !(c.2.2.2.1 && c.2.1 == 2) || c.2.2.1)

/-- obligation on the regenerated inventory of /repo's working tree -/
theorem gen_cfg_ok : cfgOK = true := by decide

/-- C19 (partial) for the code as it is: the regenerated map kind is non-inserting, hence every read-only
    operation sequence preserves the observation -/
theorem C19_partial (c : Chart) (ops : List Op) :
    observe (run Chartparse.Gen.trackMapAutoInserts c ops) = observe c := by
  have h : Chartparse.Gen.trackMapAutoInserts = false := by
    have := gen_cfg_ok
    unfold cfgOK at this
    simp only [Bool.and_eq_true, Bool.not_eq_true'] at this
    exact this.1.1.1
  rw [h]; exact run_observe c ops

/-- the originally shipped behaviour (auto-inserting map) violates the property: one look-up of an absent
    instrument, or one failing rate query, changes the chart -/
theorem autoviv_counterexample_getitem :
    observe (run true ⟨[(0, [3])], []⟩ [.getItem 2]) ≠ observe ⟨[(0, [3])], []⟩ := by decide
theorem autoviv_counterexample_nps :
    observe (run true ⟨[(0, [3])], []⟩ [.nps 5 0]) ≠ observe ⟨[(0, [3])], []⟩ := by decide

/-- the second sentence of C19 on the regenerated inventory: every frozen event / track / parsed-data class is a dataclass in its own
    right, so its generated `__setattr__` / `__delattr__` refuse every attribute name -/
theorem frozen_classes_are_decorated :
    Chartparse.Gen.classes.all (fun c => !(c.2.2.2.1 && c.2.1 == 2) || c.2.2.1) = true := by decide

/-- non-vacuity: a chart with two instruments under a mixed op sequence -/
example : observe (run false ⟨[(0, [3, 2]), (5, [0])], []⟩ [.getItem 7, .nps 0 1, .derived 4 9, .pure, .nps 9 9]) =
    [(0, [3, 2]), (5, [0])] := by decide

end Chartparse.Props.C19
