import Chartparse.Proofs.ChartOrder
import Chartparse.Proofs.EventsProofs
import Chartparse.Proofs.TrackProofs
import Chartparse.Proofs.Hint
import Chartparse.Proofs.ChainProofs
/-! Property theorems of C11 (statements only; helper lemmas live in `Proofs/`). -/
namespace Chartparse.Props.C11
open Chartparse.Inst Chartparse.Meta
open Chartparse Chartparse.Tempo

/-- C11, hint invariance: any hint not beyond the governing event gives the governing index -/
theorem hint_invariant :
    ∀ {ticks : List Nat} (hs : ticks.Pairwise (· < ·)) {tick : Int} {start : Nat}
    (h : start < (before tick ticks).length),
    indexOfProximal ticks tick start = .ok ((before tick ticks).length - 1) :=
  @Chartparse.Tempo.hint_invariant

/-- C11, hint rejection: a hint beyond the governing event (or beyond the list) is a `ValueError` -/
theorem hint_reject :
    ∀ {ticks : List Nat} (hs : ticks.Pairwise (· < ·)) {tick : Int} {start : Nat}
    (h : (before tick ticks).length ≤ start),
    indexOfProximal ticks tick start = .error .valueError :=
  @Chartparse.Tempo.hint_reject

/-- the index returned is the last event at or before the tick -/
theorem governing_spec :
    ∀ {ticks : List Nat} (hs : ticks.Pairwise (· < ·)) {tick : Int} {g : Nat}
    (h : indexOfProximal ticks tick 0 = .ok g),
    (∃ x, ticks[g]? = some x ∧ (x : Int) ≤ tick) ∧ ∀ y, ticks[g + 1]? = some y → tick < (y : Int) :=
  @Chartparse.Tempo.governing_spec

/-- whatever hint was supplied, a successful scan returned what the un-hinted scan returns -/
theorem ok_hint_indep :
    ∀ {ticks : List Nat} (hs : ticks.Pairwise (· < ·)) {tick : Int} {h g : Nat}
    (hok : indexOfProximal ticks tick h = .ok g),
    indexOfProximal ticks tick 0 = .ok g :=
  @Chartparse.Tempo.ok_hint_indep

/-- C11 for body lines in any order whatsoever: loud failure, or every stored index is the un-hinted one -/
theorem chain_any_order :
    ∀ {ticks : List Nat} (hs : ticks.Pairwise (· < ·)) (evs : List Nat) (h : Nat),
    buildChain ticks evs h = .error .valueError ∨
    ∃ out, buildChain ticks evs h = .ok out ∧ out.map (·.1) = evs ∧
      ∀ p ∈ out, indexOfProximal ticks (p.1 : Int) 0 = .ok p.2 :=
  @Chartparse.Tempo.chain_any_order

/-- C18 for this function: the `IndexError` branch is unreachable -/
theorem no_internal :
    ∀ (ticks : List Nat) (tick : Int) (start : Nat) (w : String),
    indexOfProximal ticks tick start ≠ .error (.internal w) :=
  @Chartparse.Tempo.no_internal

/-- C11: a hint not beyond the governing event gives exactly the un-hinted answer (timestamp and index) -/
theorem C11_hint_invariant :
    ∀ (res : Int) (evs : List BpmEv) (hs : (evs.map (·.tick)).Pairwise (· < ·))
    (tick : Int) (h : Nat) (hh : h < (before tick (evs.map (·.tick))).length),
    tsAt res evs tick h = tsAt res evs tick 0 :=
  @Chartparse.Tempo.tsAt_hint_invariant

/-- C11: a hint beyond the governing event is rejected with ValueError -/
theorem C11_hint_reject :
    ∀ (res : Int) (evs : List BpmEv) (hs : (evs.map (·.tick)).Pairwise (· < ·))
    (tick : Int) (h : Nat) (hh : (before tick (evs.map (·.tick))).length ≤ h),
    tsAt res evs tick h = .error .valueError :=
  @Chartparse.Tempo.tsAt_hint_reject

/-- C11: a successful hinted query is the un-hinted query -/
theorem C11_hint_indep :
    ∀ (res : Int) (evs : List BpmEv) (hs : (evs.map (·.tick)).Pairwise (· < ·))
    (tick : Int) (h : Nat) (r : Int × Nat) (hok : tsAt res evs tick h = .ok r),
    tsAt res evs tick 0 = .ok r :=
  @Chartparse.Tempo.tsAt_hint_indep

/-- every failure of the query is a ValueError -/
theorem C11_errors_are_ValueError :
    ∀ (res : Int) (evs : List BpmEv) (tick : Int) (h : Nat) (e : PyErr)
    (herr : tsAt res evs tick h = .error e),
    e = .valueError :=
  @Chartparse.Tempo.tsAt_err

/-- **C11 (any line order)**: for the body lines of one kind in any order whatsoever — sorted, partially sorted,
    shuffled, with duplicates — building the events either raises ValueError or returns, for every line, exactly the
    timestamp and governing index of the un-hinted query for its tick -/
theorem C11_chain_any_order :
    ∀ (res : Int) (evs : List BpmEv) (hs : (evs.map (·.tick)).Pairwise (· < ·))
    (ticks : List Nat) (h : Nat),
    chain res evs ticks h = .error .valueError ∨
    ∃ out, chain res evs ticks h = .ok out ∧ out.length = ticks.length ∧
      ∀ i (hi : i < ticks.length) (ho : i < out.length), tsAt res evs (ticks[i] : Int) 0 = .ok out[i] :=
  @Chartparse.Tempo.chain_any_order_ts

/-- a linked map has strictly increasing ticks -/
theorem sorted_of_linked :
    ∀ (res : Nat) (evs : List BpmEv) (hl : Linked res evs),
    (evs.map (·.tick)).Pairwise (· < ·) :=
  @Chartparse.Tempo.sorted_of_linked

/-- non-vacuity: hints 0..1 give the same answer at tick 900 on a 3-event map, hint 2 is rejected -/
example : (tsAt 100 [⟨0, 120, 0⟩, ⟨800, 60, 4000000⟩, ⟨1200, 90, 8000000⟩] 900 1).toOption =
    (tsAt 100 [⟨0, 120, 0⟩, ⟨800, 60, 4000000⟩, ⟨1200, 90, 8000000⟩] 900 0).toOption ∧
    (tsAt 100 [⟨0, 120, 0⟩, ⟨800, 60, 4000000⟩, ⟨1200, 90, 8000000⟩] 900 2).toOption = none := by decide +kernel

/-- **C11 (notes)**: on a map with strictly increasing ticks, every note's stored start time and governing index are
    those of the un-hinted query for its tick — whatever hints the builder threaded -/
theorem C11_notes :
    ∀ {res evs sps gs prev b s ns} (h : Inst.NotesOf res evs sps gs prev b s ns)
    (hsorted : (evs.map (·.tick)).Pairwise (· < ·)),
    ∀ n ∈ ns, tsAt res evs (n.tick : Int) 0 = .ok (n.ts, n.idx) :=
  @Chartparse.Inst.notes_ts

/-- **C11 / C01 for the global events of a parsed chart**: every text, section and lyric event carries exactly the
    un-hinted query's timestamp and governing index for its tick -/
theorem C11_chart_events :
    ∀ (secs : Sections) (want : Option (List (Nat × Nat))) (c : Chart) (h : parseSections secs want = .ok c),
    ∀ e, (e ∈ c.events.texts ∨ e ∈ c.events.sections ∨ e ∈ c.events.lyrics) →
      tsAt c.res c.sync.bpms (e.tick : Int) 0 = .ok (e.ts, e.idx) :=
  @Chartparse.chart_events_ts

/-- **C11 / C01 for a track built on a trustworthy map**: notes (start), star-power phrases and track events -/
theorem C11_track_events :
    ∀ (res : Int) (evs : List BpmEv) (hs : (evs.map (·.tick)).Pairwise (· < ·))
    (nd : List NDatum) (sd : List Phrase) (td : List (Nat × Str)) (t : Track) (h : buildTrack res evs nd sd td = .ok t),
    (∀ n ∈ t.notes, tsAt res evs (n.tick : Int) 0 = .ok (n.ts, n.idx)) ∧
    (∀ e ∈ t.sps, tsAt res evs (e.tick : Int) 0 = .ok (e.ts, e.idx)) ∧
    (∀ e ∈ t.tes, tsAt res evs (e.tick : Int) 0 = .ok (e.ts, e.idx)) ∧
    t.sps.map (fun e => (⟨e.tick, e.len⟩ : Phrase)) = sd ∧ t.tes.map (fun e => (e.tick, e.value)) = td :=
  @Chartparse.buildTrack_ts

/-- **C11 / C01 for text, section, lyric and track events** -/
theorem C11_value_events :
    ∀ (res : Int) (evs : List BpmEv) (hs : (evs.map (·.tick)).Pairwise (· < ·))
    (l : List (Nat × Str)) (out : List ValEv) (h : buildValEvs res evs l = .ok out),
    out.map (fun e => (e.tick, e.value)) = l ∧ ∀ e ∈ out, tsAt res evs (e.tick : Int) 0 = .ok (e.ts, e.idx) :=
  @Chartparse.buildValEvs_spec

/-- **C01/C11 at chart level**: every timestamped event of a returned chart carries the hint-free query of its own tick -/
theorem C11_chart_all :
    ∀ (secs : Sections) (want : Option (List (Nat × Nat))) (c : Chart)
    (h : parseSections secs want = .ok c),
    ∀ p ∈ timed c, ∃ g, tsAt c.res c.sync.bpms (p.1 : Int) 0 = .ok (p.2, g) :=
  @Chartparse.timed_query

theorem C11_from_file :
    ∀ (text : Str) (want : Option (List (Nat × Nat))) (c : Chart) (h : parseChart text want = .ok c),
    ∀ p ∈ timed c, ∃ g, tsAt c.res c.sync.bpms (p.1 : Int) 0 = .ok (p.2, g) :=
  @Chartparse.text_timed_query

end Chartparse.Props.C11
