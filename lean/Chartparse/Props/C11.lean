import Chartparse.Proofs.Hint
/-! Property theorems of C11 (statements only; helper lemmas live in `Proofs/`). -/
namespace Chartparse.Props.C11
open Chartparse Chartparse.Tempo

/-- C11, hint invariance: any hint not beyond the governing event gives the governing index -/
theorem hint_invariant :
    ∀ {ticks : List Nat} (hs : ticks.Pairwise (· < ·)) {tick : Int} {start : Nat}
    (h : start < (before tick ticks).length),
    indexOfProximal ticks tick start = .ok ((before tick ticks).length - 1) :=
  @Chartparse.Tempo.hint_invariant

/-- C11, hint rejection: a hint beyond the governing event (or beyond the list) is a `ValueError` -/
theorem hint_reject :
    ∀ {ticks : List Nat} (hs : ticks.Pairwise (· < ·)) {tick : Int} {start : Nat}
    (h : (before tick ticks).length ≤ start),
    indexOfProximal ticks tick start = .error .valueError :=
  @Chartparse.Tempo.hint_reject

/-- the index returned is the last event at or before the tick -/
theorem governing_spec :
    ∀ {ticks : List Nat} (hs : ticks.Pairwise (· < ·)) {tick : Int} {g : Nat}
    (h : indexOfProximal ticks tick 0 = .ok g),
    (∃ x, ticks[g]? = some x ∧ (x : Int) ≤ tick) ∧ ∀ y, ticks[g + 1]? = some y → tick < (y : Int) :=
  @Chartparse.Tempo.governing_spec

/-- whatever hint was supplied, a successful scan returned what the un-hinted scan returns -/
theorem ok_hint_indep :
    ∀ {ticks : List Nat} (hs : ticks.Pairwise (· < ·)) {tick : Int} {h g : Nat}
    (hok : indexOfProximal ticks tick h = .ok g),
    indexOfProximal ticks tick 0 = .ok g :=
  @Chartparse.Tempo.ok_hint_indep

/-- C11 for body lines in any order whatsoever: loud failure, or every stored index is the un-hinted one -/
theorem chain_any_order :
    ∀ {ticks : List Nat} (hs : ticks.Pairwise (· < ·)) (evs : List Nat) (h : Nat),
    buildChain ticks evs h = .error .valueError ∨
    ∃ out, buildChain ticks evs h = .ok out ∧ out.map (·.1) = evs ∧
      ∀ p ∈ out, indexOfProximal ticks (p.1 : Int) 0 = .ok p.2 :=
  @Chartparse.Tempo.chain_any_order

/-- C18 for this function: the `IndexError` branch is unreachable -/
theorem no_internal :
    ∀ (ticks : List Nat) (tick : Int) (start : Nat) (w : String),
    indexOfProximal ticks tick start ≠ .error (.internal w) :=
  @Chartparse.Tempo.no_internal

end Chartparse.Props.C11
