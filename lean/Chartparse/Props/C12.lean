import Chartparse.Proofs.ChartOrder
import Chartparse.Proofs.Strict
import Chartparse.Proofs.ChainProofs
/-! Property theorems of C12 (statements only; helper lemmas live in `Proofs/`). -/
namespace Chartparse.Props.C12
open Chartparse Chartparse.Tempo Chartparse.F64

/-- C12: time is a non-decreasing function of tick (every linked map, every pair of ticks) -/
theorem tsRec_mono :
    ∀ (res : Nat) (evs : List BpmEv) (hl : Linked res evs),
    ∀ a b x y, a ≤ b → tsRec res evs a = some x → tsRec res evs b = some y → x ≤ y :=
  @Chartparse.Tempo.tsRec_mono

/-- when a tick lasts at least two microseconds, later ticks of one segment get strictly later times -/
theorem seg_strict :
    ∀ (res n : Nat) (hn : 1 ≤ n) (hres : 1 ≤ res) (hslow : n * res ≤ 30000000000)
    {a b : Nat} (hab : a < b) (hE : segUs res b n < 1000000000000),
    usOfSeconds (secsFromTicks a (fl ((n : Rat) / 1000)) res)
      < usOfSeconds (secsFromTicks b (fl ((n : Rat) / 1000)) res) :=
  @Chartparse.Tempo.seg_strict

/-- C12, strict part: inside the C01 envelope and with every tick lasting ≥ 2 µs -/
theorem tsRec_strict :
    ∀ (res : Nat) (hres : 1 ≤ res) (evs : List EvN) (hn : ∀ e ∈ evs, 1 ≤ e.n)
    (hslow : ∀ e ∈ evs, e.n * res ≤ 30000000000) (hl : Linked res (evs.map EvN.toEv)),
    ∀ a b x y, a < b → (∀ e rest, evs = e :: rest → e.tick ≤ a) →
      tsRec res (evs.map EvN.toEv) a = some x → tsRec res (evs.map EvN.toEv) b = some y →
      exactRec res evs b < 1000000000000 → x < y :=
  @Chartparse.Tempo.tsRec_strict

/-- **C12 (monotone)**: on any map the code builds, for any two ticks `a ≤ b`, the un-hinted query never goes back
    in time — no envelope, no bound on resolution, tempo or tick -/
theorem C12_mono :
    ∀ (res : Nat) (raw : List (Nat × Rat)) (evs : List BpmEv) (hb : buildMap (res : Int) raw = .ok evs)
    (a b : Nat) (hab : a ≤ b) (x y : Int) (ga gb : Nat)
    (ha : tsAt (res : Int) evs (a : Int) 0 = .ok (x, ga)) (hbq : tsAt (res : Int) evs (b : Int) 0 = .ok (y, gb)),
    x ≤ y :=
  @Chartparse.Tempo.C12_mono

/-- **C12 (equal ticks)**: the query is a function of the tick (whatever hints were used on the way) -/
theorem C12_equal :
    ∀ (res : Int) (evs : List BpmEv) (hs : (evs.map (·.tick)).Pairwise (· < ·)) (tick : Int) (h h' : Nat)
    (r r' : Int × Nat) (hq : tsAt res evs tick h = .ok r) (hq' : tsAt res evs tick h' = .ok r'),
    r = r' :=
  @Chartparse.Tempo.C12_equal

/-- **C12 (strict)**: whenever every tick lasts at least two microseconds (`n·res ≤ 3·10¹⁰`, i.e. BPM × resolution ≤
    3·10⁷) and the exact time stays below 10⁶ s, the query is strictly increasing -/
theorem C12_strict :
    ∀ (res : Nat) (hres : 1 ≤ res) (pairs : List (Nat × Nat)) (hn : ∀ p ∈ pairs, 1 ≤ p.2)
    (hslow : ∀ p ∈ pairs, p.2 * res ≤ 30000000000)
    (evs : List BpmEv) (hb : mapOf res pairs = .ok evs) (a b : Nat) (hab : a < b) (x y : Int) (ga gb : Nat)
    (ha : tsAt (res : Int) evs (a : Int) 0 = .ok (x, ga)) (hbq : tsAt (res : Int) evs (b : Int) 0 = .ok (y, gb))
    (hE : exactUs res pairs b < 1000000000000),
    x < y :=
  @Chartparse.Tempo.C12_strict

/-- the literal statement without a time bound is false for binary64 — the listed known finding, as a kernel-checked
    witness on the model: resolution 1000, 30000 BPM (2 µs per tick), ticks 2·10¹⁶ and 2·10¹⁶+1 get the same time -/
theorem strict_fails_outside_envelope :
    usOfSeconds (secsFromTicks 20000000000000000 (decodeBpm 30000000) 1000) =
    usOfSeconds (secsFromTicks 20000000000000001 (decodeBpm 30000000) 1000) := by decide +kernel

/-- **C12 at chart level**: across *all* timestamped events of a returned chart — whatever their kind, section or track —
    an event at a later-or-equal tick never has an earlier timestamp, and events at equal ticks have equal timestamps -/
theorem C12_chart :
    ∀ (secs : Sections) (want : Option (List (Nat × Nat))) (c : Chart)
    (h : parseSections secs want = .ok c),
    ∀ p ∈ timed c, ∀ q ∈ timed c, (p.1 ≤ q.1 → p.2 ≤ q.2) ∧ (p.1 = q.1 → p.2 = q.2) :=
  @Chartparse.chart_time_order

/-- the same, from the text: `Chart.from_file` -/
theorem C12_from_file :
    ∀ (text : Str) (want : Option (List (Nat × Nat))) (c : Chart) (h : parseChart text want = .ok c),
    ∀ p ∈ timed c, ∀ q ∈ timed c, (p.1 ≤ q.1 → p.2 ≤ q.2) ∧ (p.1 = q.1 → p.2 = q.2) :=
  @Chartparse.text_time_order

/-- non-vacuity of `C12_from_file`: a text the model parses, with a tempo change between its events -/
example : (match parseChart (cp "[Song]\n{\n  Resolution = 192\n}\n[SyncTrack]\n{\n  0 = TS 4\n  0 = B 120000\n  100 = B 60000\n}\n[Events]\n{\n  250 = E \"section a\"\n}\n[ExpertSingle]\n{\n  5 = N 0 0\n  300 = N 1 10\n}\n") none with
    | .ok c => timed c | _ => []) = [(0, 0), (250, 1041667), (5, 13021), (300, 1302084)] := by decide +kernel

end Chartparse.Props.C12
