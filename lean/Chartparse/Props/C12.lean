import Chartparse.Proofs.Strict
/-! Property theorems of C12 (statements only; helper lemmas live in `Proofs/`). -/
namespace Chartparse.Props.C12
open Chartparse Chartparse.Tempo Chartparse.F64

/-- C12: time is a non-decreasing function of tick (every linked map, every pair of ticks) -/
theorem tsRec_mono :
    ∀ (res : Nat) (evs : List BpmEv) (hl : Linked res evs),
    ∀ a b x y, a ≤ b → tsRec res evs a = some x → tsRec res evs b = some y → x ≤ y :=
  @Chartparse.Tempo.tsRec_mono

/-- when a tick lasts at least two microseconds, later ticks of one segment get strictly later times -/
theorem seg_strict :
    ∀ (res n : Nat) (hn : 1 ≤ n) (hres : 1 ≤ res) (hslow : n * res ≤ 30000000000)
    {a b : Nat} (hab : a < b) (hE : segUs res b n < 1000000000000),
    usOfSeconds (secsFromTicks a (fl ((n : Rat) / 1000)) res)
      < usOfSeconds (secsFromTicks b (fl ((n : Rat) / 1000)) res) :=
  @Chartparse.Tempo.seg_strict

/-- C12, strict part: inside the C01 envelope and with every tick lasting ≥ 2 µs -/
theorem tsRec_strict :
    ∀ (res : Nat) (hres : 1 ≤ res) (evs : List EvN) (hn : ∀ e ∈ evs, 1 ≤ e.n)
    (hslow : ∀ e ∈ evs, e.n * res ≤ 30000000000) (hl : Linked res (evs.map EvN.toEv)),
    ∀ a b x y, a < b → (∀ e rest, evs = e :: rest → e.tick ≤ a) →
      tsRec res (evs.map EvN.toEv) a = some x → tsRec res (evs.map EvN.toEv) b = some y →
      exactRec res evs b < 1000000000000 → x < y :=
  @Chartparse.Tempo.tsRec_strict

end Chartparse.Props.C12
