import Chartparse.Proofs.ChartCompose
import Chartparse.Proofs.RouteProofs
/-! Property theorems of C13 (statements only; helper lemmas live in `Proofs/`). -/
namespace Chartparse.Props.C13
open Chartparse Chartparse.Tempo Chartparse.Inst

/-- C13: a selection returns exactly the selected tracks of the unrestricted parse, each identical, in the same
    order, and the same unhandled-section reports -/
theorem C13_restrict :
    ∀ (res : Int) (evs : List BpmEv) (ws : List (Nat × Nat)) (secs : Sections)
    (full : List RoutedTrack × Nat × List Str)
    (h : routeTracks res evs (selOf none) secs = .ok full),
    ∃ n, routeTracks res evs (selOf (some ws)) secs = .ok (full.1.filter (fun t => ws.contains t.key), n, full.2.2) :=
  @Chartparse.route_restrict

/-- an empty selection parses no track, so it cannot fail, and yields no tracks -/
theorem C13_empty :
    ∀ (res : Int) (evs : List BpmEv) (secs : Sections),
    ∃ u, routeTracks res evs (selOf (some [])) secs = .ok ([], 0, u) :=
  @Chartparse.route_empty

/-- C13: the body of a section that is not a selected track cannot affect the routing result -/
theorem C13_isolate :
    ∀ (res : Int) (evs : List BpmEv) (sel : Nat × Nat → Bool) (pre post : Sections) (tag : Str)
    (b b' : List Str)
    (h : ∀ r, routeOf tag = some r → sel (r.1, r.2.1) = false),
    routeTracks res evs sel (pre ++ (tag, b) :: post) = routeTracks res evs sel (pre ++ (tag, b') :: post) :=
  @Chartparse.route_isolate

/-- metadata, sync track and global events never depend on the selection -/
theorem C13_shared :
    ∀ (secs : Sections) (w w' : Option (List (Nat × Nat))) (c c' : Chart)
    (h : parseSections secs w = .ok c) (h' : parseSections secs w' = .ok c'),
    c.metad = c'.metad ∧ c.res = c'.res ∧ c.sync = c'.sync ∧ c.events = c'.events :=
  @Chartparse.sections_shared

/-- C13 at chart level: if the unrestricted parse succeeds, so does every restricted one, and its tracks are the
    selected tracks of the unrestricted routing, folded into the same map -/
theorem C13_chart :
    ∀ (secs : Sections) (ws : List (Nat × Nat)) (c : Chart)
    (h : parseSections secs none = .ok c),
    ∃ c' sh full, parseSections secs (some ws) = .ok c' ∧ parseShared secs = .ok sh ∧
      routeTracks sh.res sh.sync.bpms (selOf none) secs = .ok full ∧
      c.tracks = full.1.foldl putTrack [] ∧
      c'.tracks = (full.1.filter (fun t => ws.contains t.key)).foldl putTrack [] ∧
      c'.metad = c.metad ∧ c'.sync = c.sync ∧ c'.events = c.events ∧ c'.unhandled = c.unhandled :=
  @Chartparse.sections_restrict

/-- non-vacuity: a tag of the regenerated header table routes, an unknown one does not -/
example : routeOf (cp "ExpertSingle") = some (0, 3, 0, 3) ∧ routeOf (cp "SingleExpert") = none := by decide

/-- **every track of a returned chart is the track builder's result on one of the chart's own sections**, built against
    the chart's own resolution and tempo map, under the header's (instrument, difficulty) key, and only if selected -/
theorem C13_only_selected :
    ∀ (secs : Sections) (want : Option (List (Nat × Nat))) (c : Chart)
    (h : parseSections secs want = .ok c),
    ∀ rt ∈ c.tracks, FromSection c.res c.sync.bpms (selOf want) secs rt :=
  @Chartparse.chart_tracks_from_sections

end Chartparse.Props.C13
