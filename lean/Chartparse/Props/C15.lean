import Chartparse.Proofs.C15Proofs
/-! Property theorems of C15 (statements only; helper lemmas live in `Proofs/`). -/
namespace Chartparse.Props.C15
open Chartparse Chartparse.Tempo

/-- whatever is wrong with the tempo data, the failure is a `ValueError` -/
theorem buildMap_err :
    ∀ (res : Int) (raw : List (Nat × Rat)) (e : PyErr) (h : buildMap res raw = .error e),
    e = .valueError :=
  @Chartparse.Tempo.buildMap_err

/-- a map that was built satisfies every condition C15 lists -/
theorem buildMap_ok :
    ∀ (res : Int) (raw : List (Nat × Rat)) (evs : List BpmEv) (h : buildMap res raw = .ok evs),
    0 < res ∧ raw ≠ [] ∧ (∃ b rest, raw = (0, b) :: rest) ∧
    (evs.map (·.tick)).Pairwise (· < ·) ∧ evs.map (fun e => (e.tick, e.bpm)) = raw :=
  @Chartparse.Tempo.buildMap_ok

/-- no time for a negative tick, and no time under a non-positive tempo -/
theorem C15_negative :
    ∀ (res : Int) (evs : List BpmEv) (tick : Int) (hint : Nat) (h : tick < 0),
    tsAt res evs tick hint = .error .valueError :=
  @Chartparse.Tempo.tsAt_negative

theorem C15_zero_bpm :
    ∀ (res : Int) (evs : List BpmEv) (tick : Int) (hint : Nat) (x : Int) (g : Nat)
    (h : tsAt res evs tick hint = .ok (x, g)),
    ∃ ev, evs[g]? = some ev ∧ 0 < ev.bpm ∧ 0 < res :=
  @Chartparse.Tempo.tsAt_ok_bpm

end Chartparse.Props.C15
