import Chartparse.Proofs.SyncProofs
import Chartparse.Proofs.C15Proofs
/-! Property theorems of C15 (statements only; helper lemmas live in `Proofs/`). -/
namespace Chartparse.Props.C15
open Chartparse.F64 Chartparse.Inst Chartparse.Meta
open Chartparse Chartparse.Tempo

/-- whatever is wrong with the tempo data, the failure is a `ValueError` -/
theorem buildMap_err :
    ∀ (res : Int) (raw : List (Nat × Rat)) (e : PyErr) (h : buildMap res raw = .error e),
    e = .valueError :=
  @Chartparse.Tempo.buildMap_err

/-- a map that was built satisfies every condition C15 lists -/
theorem buildMap_ok :
    ∀ (res : Int) (raw : List (Nat × Rat)) (evs : List BpmEv) (h : buildMap res raw = .ok evs),
    0 < res ∧ raw ≠ [] ∧ (∃ b rest, raw = (0, b) :: rest) ∧
    (evs.map (·.tick)).Pairwise (· < ·) ∧ evs.map (fun e => (e.tick, e.bpm)) = raw :=
  @Chartparse.Tempo.buildMap_ok

/-- no time for a negative tick, and no time under a non-positive tempo -/
theorem C15_negative :
    ∀ (res : Int) (evs : List BpmEv) (tick : Int) (hint : Nat) (h : tick < 0),
    tsAt res evs tick hint = .error .valueError :=
  @Chartparse.Tempo.tsAt_negative

theorem C15_zero_bpm :
    ∀ (res : Int) (evs : List BpmEv) (tick : Int) (hint : Nat) (x : Int) (g : Nat)
    (h : tsAt res evs tick hint = .ok (x, g)),
    ∃ ev, evs[g]? = some ev ∧ 0 < ev.bpm ∧ 0 < res :=
  @Chartparse.Tempo.tsAt_ok_bpm

/-- **C15**: whatever is wrong with the sync data, the failure is a ValueError -/
theorem C15_sync_err :
    ∀ (res : Int) (bd : List (Nat × Rat)) (td : List (Nat × Nat × Option Nat)) (ad : List (Nat × Nat))
    (e : PyErr) (h : buildSync res bd td ad = .error e),
    e = .valueError :=
  @Chartparse.buildSync_err

/-- **C15**: a sync track that was built satisfies every trust condition the property lists — positive resolution, a tempo
    at tick 0, strictly increasing tempo ticks (at every position), every tempo passing the three-decimal validation, a
    time signature at tick 0 -/
theorem C15_sync_ok :
    ∀ (res : Int) (bd : List (Nat × Rat)) (td : List (Nat × Nat × Option Nat)) (ad : List (Nat × Nat))
    (s : Sync) (h : buildSync res bd td ad = .ok s),
    0 < res ∧ (∃ b rest, bd = (0, b) :: rest) ∧ (s.bpms.map (·.tick)).Pairwise (· < ·) ∧
    s.bpms.map (fun e => (e.tick, e.bpm)) = bd ∧ (∀ tb ∈ bd, validBpm tb.2 = true) ∧
    (∃ u l rest, td = (0, u, l) :: rest) :=
  @Chartparse.buildSync_ok

/-- **C15 at chart level**: a chart that parsed has a positive resolution and a tempo map with strictly increasing ticks
    starting at tick 0 — so every timestamp in it came out of a trustworthy map -/
theorem C15_chart :
    ∀ (secs : Sections) (want : Option (List (Nat × Nat))) (c : Chart)
    (h : parseSections secs want = .ok c),
    0 < c.res ∧ (c.sync.bpms.map (·.tick)).Pairwise (· < ·) ∧ (∃ e rest, c.sync.bpms = e :: rest ∧ e.tick = 0) ∧
    (∃ e rest, c.sync.tss = e :: rest ∧ e.tick = 0) :=
  @Chartparse.parseSections_trust

/-- non-vacuity: the tempo map of tests/data/test.chart satisfies the conclusions; a duplicated tick is rejected -/
example : (buildMap 100 [(0, 117), (800, 120), (1200, 90)]).toOption.isSome = true ∧
    (buildMap 100 [(0, 117), (800, 120), (800, 90)]).toOption = none ∧ (buildMap 0 [(0, 117)]).toOption = none ∧
    (buildMap 100 [(5, 117)]).toOption = none := by decide +kernel

end Chartparse.Props.C15
