import Chartparse.Proofs.ChartCompose
import Chartparse.Proofs.TrackProofs
import Chartparse.Proofs.StarPower
/-! Property theorems of C05 (statements only; helper lemmas live in `Proofs/`). -/
namespace Chartparse.Props.C05
open Chartparse Chartparse.Inst Chartparse.Tempo

/-- one note: the answer is the first covering phrase, and the invariant is re-established -/
theorem C05_one_note :
    ∀ (sps : List Phrase) (hs : sps.Pairwise (fun a b => a.tick ≤ b.tick)) (t cur : Nat)
    (hinv : Inv sps cur t),
    ∃ c, spData t sps cur = .ok (firstCovering t sps, c) ∧ Inv sps c t :=
  @Chartparse.Inst.compute_spec

/-- C05 for a whole track: notes in increasing tick order, cursor threaded from note to note -/
theorem C05_run :
    ∀ (sps : List Phrase) (hs : sps.Pairwise (fun a b => a.tick ≤ b.tick))
    (ts : List Nat) (hts : ts.Pairwise (· ≤ ·)) (cur : Nat)
    (hinv : ∀ t ∈ ts, Inv sps cur t),
    run sps ts cur = some (ts.map fun t => firstCovering t sps) :=
  @Chartparse.Inst.run_spec

/-- C05 as the code starts it: cursor 0, any phrase list ordered by start tick, notes in tick order -/
theorem C05 :
    ∀ (sps : List Phrase) (hs : sps.Pairwise (fun a b => a.tick ≤ b.tick))
    (ts : List Nat) (hts : ts.Pairwise (· ≤ ·)),
    run sps ts 0 = some (ts.map fun t => firstCovering t sps) :=
  @Chartparse.Inst.C05

/-- **C05 (track)**: the star-power data of the notes is the threaded cursor run over their ticks -/
theorem C05_cursor :
    ∀ {res evs sps gs prev b s ns} (h : NotesOf res evs sps gs prev b s ns),
    run sps (ns.map (·.tick)) s = some (ns.map (·.sp)) :=
  @Chartparse.Inst.notes_sp

/-- **C05 (track, final form)**: phrases ordered by start tick, notes in non-decreasing tick order ⇒ every note carries
    the index of the first phrase covering its tick (half-open), or nothing -/
theorem C05_track :
    ∀ (res : Int) (evs : List BpmEv) (sps : List Phrase) (gs : List (List NDatum)) (ns : List NoteEv)
    (h : buildNotes res evs sps gs none 0 0 = .ok ns)
    (hs : sps.Pairwise (fun a b => a.tick ≤ b.tick)) (hts : (ns.map (·.tick)).Pairwise (· ≤ ·)),
    ns.map (·.sp) = ns.map (fun n => firstCovering n.tick sps) :=
  @Chartparse.Inst.C05_track

/-- **the notes of every track of every returned chart** are `buildNotes` of the tick groups of the N lines of one of the
    text's own instrument sections, against that section's own S lines, the chart's resolution and the chart's tempo map,
    starting with no previous note and both cursors at zero — so `NotesOf` holds and with it every track-level theorem
    (C02 ticks/lanes, C03 sustains, C04 HOPO rule, C05 star power, C11 timestamps) -/
theorem C05_chart :
    ∀ (secs : Sections) (want : Option (List (Nat × Nat))) (c : Chart)
    (h : parseSections secs want = .ok c) (rt : RoutedTrack) (hrt : rt ∈ c.tracks),
    ∃ tag lines, (tag, lines) ∈ secs ∧ (routeOf tag).isSome = true ∧
      buildNotes c.res c.sync.bpms (sectionPhrases lines) (groups (sectionNotes lines)) none 0 0 = .ok rt.track.notes ∧
      NotesOf c.res c.sync.bpms (sectionPhrases lines) (groups (sectionNotes lines)) none 0 0 rt.track.notes :=
  @Chartparse.chart_track_notes

end Chartparse.Props.C05
