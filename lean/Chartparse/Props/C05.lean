import Chartparse.Proofs.StarPower
/-! Property theorems of C05 (statements only; helper lemmas live in `Proofs/`). -/
namespace Chartparse.Props.C05
open Chartparse Chartparse.Inst

/-- one note: the answer is the first covering phrase, and the invariant is re-established -/
theorem C05_one_note :
    ∀ (sps : List Phrase) (hs : sps.Pairwise (fun a b => a.tick ≤ b.tick)) (t cur : Nat)
    (hinv : Inv sps cur t),
    ∃ c, spData t sps cur = .ok (firstCovering t sps, c) ∧ Inv sps c t :=
  @Chartparse.Inst.compute_spec

/-- C05 for a whole track: notes in increasing tick order, cursor threaded from note to note -/
theorem C05_run :
    ∀ (sps : List Phrase) (hs : sps.Pairwise (fun a b => a.tick ≤ b.tick))
    (ts : List Nat) (hts : ts.Pairwise (· ≤ ·)) (cur : Nat)
    (hinv : ∀ t ∈ ts, Inv sps cur t),
    run sps ts cur = some (ts.map fun t => firstCovering t sps) :=
  @Chartparse.Inst.run_spec

/-- C05 as the code starts it: cursor 0, any phrase list ordered by start tick, notes in tick order -/
theorem C05 :
    ∀ (sps : List Phrase) (hs : sps.Pairwise (fun a b => a.tick ≤ b.tick))
    (ts : List Nat) (hts : ts.Pairwise (· ≤ ·)),
    run sps ts 0 = some (ts.map fun t => firstCovering t sps) :=
  @Chartparse.Inst.C05

end Chartparse.Props.C05
