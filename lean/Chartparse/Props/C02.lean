import Chartparse.Proofs.ChartCompose
import Chartparse.Proofs.TrackProofs
import Chartparse.Proofs.Group
import Chartparse.Gen.Tables
/-! Property theorems of C02 (statements only; helper lemmas live in `Proofs/`). -/
namespace Chartparse.Props.C02
open Chartparse Chartparse.Inst Chartparse.Tempo

theorem C02_cover :
    ∀ (ds : List NDatum),
    (groups ds).flatten = ds :=
  @Chartparse.Inst.groups_flatten

/-- every group is non-empty and carries one tick -/
theorem C02_uniform :
    ∀ (ds : List NDatum),
    ∀ g ∈ groups ds, ∃ d, ∃ r, g = d :: r ∧ ∀ x ∈ r, x.tick = d.tick :=
  @Chartparse.Inst.groups_uniform

/-- with note lines in non-decreasing tick order, one event per distinct tick, strictly increasing -/
theorem C02_ticks :
    ∀ (ds : List NDatum) (hs : ds.Pairwise (fun a b => a.tick ≤ b.tick)),
    (groupTicks ds).Pairwise (· < ·) ∧ ∀ t ∈ groupTicks ds, ∃ d ∈ ds, d.tick = t :=
  @Chartparse.Inst.groupTicks_strict

/-- lanes are exactly the lanes written on that tick's lines -/
theorem C02_lanes :
    ∀ (g : List NDatum) (l : Nat) (hl : l < 5),
    (lanes g)[l]? = some (g.any fun d => d.idx == l) :=
  @Chartparse.Inst.lanes_spec

/-- obligation on the regenerated `Note` table: every 5-lane combination is a member (so `Note(tuple)` never misses),
    members are pairwise distinct, and `is_chord` is "more than one lane" -/
theorem gen_note_table_total :
    Gen.noteTable.length = 32 ∧ (Gen.noteTable.map (·.1)).Nodup ∧
    Gen.noteTable.all (fun e => e.1.length == 5 && e.2.2 == decide (1 < e.1.count true)) = true := by decide

/-- obligation: the instrument section offers its kinds as note, star power, track event -/
theorem gen_instrument_kind_order : Gen.instrumentKindOrder = [0, 1, 2] := by decide

/-- C02 on the model's own pipeline: the N data reach the grouping loop in file order whatever S / E / unparsable lines
    are interleaved (the dispatcher is a per-line map, its per-kind projection keeps order) -/
theorem C02_interleave (lines : List Str) :
    noteData (dataFor Gen.instrumentKindOrder (dispatch Gen.instrumentKindOrder lines) 0) =
      lines.filterMap (fun l => match Dsp.classify (Gen.instrumentKindOrder.map decodeKind) l 0 with
        | some (0, .note t i s) => some ⟨t, i, s⟩
        | _ => none) := by
  rw [gen_instrument_kind_order]
  unfold noteData dataFor dispatch Dsp.parseData Dsp.dataOf
  simp only [List.filterMap_filterMap, List.filterMap_map]
  congr 1
  funext l
  simp only [Function.comp, List.idxOf_cons_self]
  cases Dsp.classify (List.map decodeKind [0, 1, 2]) l 0 with
  | none => rfl
  | some r =>
    obtain ⟨i, d⟩ := r
    simp only [Option.bind]
    by_cases hi : i = 0
    · subst hi; cases d <;> rfl
    · simp only [hi, if_false]
      cases i with
      | zero => exact absurd rfl hi
      | succ j => cases d <;> rfl

/-- non-vacuity: a three-lane chord with an interleaved S line and a flag, then a single note one tick later -/
example : (groups [⟨5, 0, 0⟩, ⟨5, 3, 10⟩, ⟨5, 4, 0⟩, ⟨5, 5, 0⟩, ⟨6, 1, 0⟩]).map lanes =
    [[true, false, false, true, true], [false, true, false, false, false]] := by decide

theorem buildNotes_spec :
    ∀ (res : Int) (evs : List BpmEv) (sps : List Phrase) (gs : List (List NDatum))
    (prev : Option NoteEv) (b s : Nat) (ns : List NoteEv) (h : buildNotes res evs sps gs prev b s = .ok ns),
    NotesOf res evs sps gs prev b s ns :=
  @Chartparse.Inst.buildNotes_spec

/-- **C02 (track)**: one note per group, at the group's tick, with exactly the group's lanes -/
theorem C02_track :
    ∀ {res evs sps gs prev b s ns} (h : NotesOf res evs sps gs prev b s ns),
    ns.map (·.tick) = gs.map gtick ∧ ns.map (·.lanes) = gs.map lanes :=
  @Chartparse.Inst.notes_ticks_lanes

/-- **the notes of every track of every returned chart** are `buildNotes` of the tick groups of the N lines of one of the
    text's own instrument sections, against that section's own S lines, the chart's resolution and the chart's tempo map,
    starting with no previous note and both cursors at zero — so `NotesOf` holds and with it every track-level theorem
    (C02 ticks/lanes, C03 sustains, C04 HOPO rule, C05 star power, C11 timestamps) -/
theorem C02_chart :
    ∀ (secs : Sections) (want : Option (List (Nat × Nat))) (c : Chart)
    (h : parseSections secs want = .ok c) (rt : RoutedTrack) (hrt : rt ∈ c.tracks),
    ∃ tag lines, (tag, lines) ∈ secs ∧ (routeOf tag).isSome = true ∧
      buildNotes c.res c.sync.bpms (sectionPhrases lines) (groups (sectionNotes lines)) none 0 0 = .ok rt.track.notes ∧
      NotesOf c.res c.sync.bpms (sectionPhrases lines) (groups (sectionNotes lines)) none 0 0 rt.track.notes :=
  @Chartparse.chart_track_notes

end Chartparse.Props.C02
