import Chartparse.Proofs.Group
/-! Property theorems of C02 (statements only; helper lemmas live in `Proofs/`). -/
namespace Chartparse.Props.C02
open Chartparse Chartparse.Inst

theorem C02_cover :
    ∀ (ds : List NDatum),
    (groups ds).flatten = ds :=
  @Chartparse.Inst.groups_flatten

/-- every group is non-empty and carries one tick -/
theorem C02_uniform :
    ∀ (ds : List NDatum),
    ∀ g ∈ groups ds, ∃ d, ∃ r, g = d :: r ∧ ∀ x ∈ r, x.tick = d.tick :=
  @Chartparse.Inst.groups_uniform

/-- with note lines in non-decreasing tick order, one event per distinct tick, strictly increasing -/
theorem C02_ticks :
    ∀ (ds : List NDatum) (hs : ds.Pairwise (fun a b => a.tick ≤ b.tick)),
    (groupTicks ds).Pairwise (· < ·) ∧ ∀ t ∈ groupTicks ds, ∃ d ∈ ds, d.tick = t :=
  @Chartparse.Inst.groupTicks_strict

/-- lanes are exactly the lanes written on that tick's lines -/
theorem C02_lanes :
    ∀ (g : List NDatum) (l : Nat) (hl : l < 5),
    (lanes g)[l]? = some (g.any fun d => d.idx == l) :=
  @Chartparse.Inst.lanes_spec

end Chartparse.Props.C02
