import Chartparse.Model.Instrument
import Chartparse.Model.Metadata
/-! Whole-chart model: `str.splitlines`, `Chart._partition_lines_by_data_section`, the required-section
    check, `SyncTrack.from_chart_lines`, `GlobalEventsTrack.from_chart_lines`, the routing loop with
    `want_tracks`, `Chart.from_file`, and the BOM handling of `Chart.from_filepath` (chart.py:97-195,
    sync.py:51-114). Sequencing is written with `>>=`, loops as structural recursion. Core Lean only. -/
namespace Chartparse
open Tempo Inst Meta F64

/-! ## lines -/

def isBreak (c : Nat) : Bool := Gen.lineBreaks.contains c

/-- `str.splitlines()`: `\r\n` is one break (`skip` = "the previous character was `\r`");
    no trailing empty line -/
def splitGo : Str → Str → Bool → List Str
  | [], acc, _ => if acc.isEmpty then [] else [acc.reverse]
  | c :: t, acc, skip =>
    if skip && c == 10 then splitGo t acc false
    else if isBreak c then acc.reverse :: splitGo t [] (c == 13)
    else splitGo t (c :: acc) false

def splitlines (s : Str) : List Str := splitGo s [] false

/-! ## scanner -/

def headerTag (line : Str) : Option Str := (Gen.headerRe.matchGroups line).bind (grp · 1)

abbrev Sections := List (Str × List Str)

/-- `d[tag] = body`: replace in place (the key keeps its position), or append -/
def assign (d : Sections) (tag : Str) (body : List Str) : Sections :=
  if d.any (·.1 == tag) then d.map fun kv => if kv.1 == tag then (tag, body) else kv else d ++ [(tag, body)]

/-- state: current tag, body collected since the last `{` (`none` = no `{` seen yet in this section),
    every line seen so far (what the slice `lines[None : i]` denotes) -/
def scanGo (hdr : Str → Option Str) :
    List Str → Option Str → Option (List Str) → List Str → Sections → M Sections
  | [], _, _, _, d => .ok d                                    -- a section still open at EOF is dropped
  | line :: rest, none, _, seen, d =>
    match hdr line with
    | none => .error .regexNotMatch
    | some tag => scanGo hdr rest (some tag) none (line :: seen) d
  | line :: rest, some tag, body, seen, d =>
    if line = [123] then scanGo hdr rest (some tag) (some []) (line :: seen) d          -- "{"
    else if line = [125] then                                                            -- "}"
      scanGo hdr rest none none (line :: seen)
        (assign d tag (match body with | some b => b.reverse | none => seen.reverse))
    else scanGo hdr rest (some tag) (body.map (line :: ·)) (line :: seen) d

def scanSections (lines : List Str) : M Sections := scanGo headerTag lines none none [] []

/-! ## sync track -/

structure TsEv where
  tick : Nat
  upper : Nat
  lower : Nat
  ts : Int
  idx : Nat
  deriving Repr, DecidableEq

structure Sync where
  bpms : List BpmEv
  tss : List TsEv
  anchors : List (Nat × Nat)          -- (tick, microseconds)
  deriving Repr, DecidableEq

def bpmData (ds : List Datum) : List (Nat × Rat) :=
  ds.filterMap fun d => match d with | .bpm t raw => some (t, decodeBpm (intOf raw)) | _ => none
def tsData (ds : List Datum) : List (Nat × Nat × Option Nat) :=
  ds.filterMap fun d => match d with | .ts t u l => some (t, u, l) | _ => none
def anchorData (ds : List Datum) : List (Nat × Nat) :=
  ds.filterMap fun d => match d with | .anchor t u => some (t, u) | _ => none

/-- `2**lower`, or the default lower numeral -/
def lowerOf : Option Nat → Nat
  | some l => 2 ^ l
  | none => Gen.defaultLowerNumeral

/-- `SyncTrack.from_chart_lines` on dispatched data. Every `BPMEvent` passes `__post_init__`
    (`round(bpm, 3) == bpm`); all failures of the tempo loop are `ValueError`, so the validation is
    modelled as one pass before the accumulation loop. -/
def buildSync (res : Int) (bd : List (Nat × Rat)) (td : List (Nat × Nat × Option Nat)) (ad : List (Nat × Nat)) :
    M Sync :=
  (if bd.all (fun tb => validBpm tb.2) then buildMap res bd else .error .valueError) >>= fun bpms =>
  chain res bpms (td.map (·.1)) 0 >>= fun tsts =>
    if td.isEmpty then .error .valueError                                   -- no time signature
    else if (td.head?.map (·.1)) != some 0 then .error .valueError          -- first one not at tick 0
    else .ok ⟨bpms, (td.zip tsts).map (fun ab => ⟨ab.1.1, ab.1.2.1, lowerOf ab.1.2.2, ab.2.1, ab.2.2⟩), ad⟩

def parseSync (res : Int) (lines : List Str) : M (Sync × Nat) :=
  buildSync res
      (bpmData (dataFor Gen.syncKindOrder (dispatch Gen.syncKindOrder lines) 3))
      (tsData (dataFor Gen.syncKindOrder (dispatch Gen.syncKindOrder lines) 4))
      (anchorData (dataFor Gen.syncKindOrder (dispatch Gen.syncKindOrder lines) 5)) >>= fun s =>
    .ok (s, (Dsp.warnings (dispatch Gen.syncKindOrder lines)).length)

/-! ## global events -/

structure Events where
  texts : List ValEv
  sections : List ValEv
  lyrics : List ValEv
  deriving Repr, DecidableEq

def evData (ds : List Datum) : List (Nat × Str) :=
  ds.filterMap fun d => match d with | .ev _ t v => some (t, v) | _ => none

def buildValEvs (res : Int) (evs : List BpmEv) (l : List (Nat × Str)) : M (List ValEv) :=
  chain res evs (l.map (·.1)) 0 >>= fun ts => .ok ((l.zip ts).map fun ab => ⟨ab.1.1, ab.1.2, ab.2.1, ab.2.2⟩)

def parseEvents (res : Int) (evs : List BpmEv) (lines : List Str) : M (Events × Nat) :=
  buildValEvs res evs (evData (dataFor Gen.eventsKindOrder (dispatch Gen.eventsKindOrder lines) 8)) >>= fun texts =>
  buildValEvs res evs (evData (dataFor Gen.eventsKindOrder (dispatch Gen.eventsKindOrder lines) 7)) >>= fun secs =>
  buildValEvs res evs (evData (dataFor Gen.eventsKindOrder (dispatch Gen.eventsKindOrder lines) 6)) >>= fun lyrics =>
    .ok (⟨texts, secs, lyrics⟩, (Dsp.warnings (dispatch Gen.eventsKindOrder lines)).length)

/-! ## routing -/

/-- `(key instrument, key difficulty, label instrument, label difficulty)` of a header tag -/
def routeOf (tag : Str) : Option (Nat × Nat × Nat × Nat) := (Gen.headerTable.find? (·.1 == tag)).map (·.2)

structure RoutedTrack where
  key : Nat × Nat
  label : Nat × Nat
  track : Track
  deriving Repr, DecidableEq

/-- `instrument_tracks[instrument][difficulty] = track` -/
def putTrack (ts : List RoutedTrack) (t : RoutedTrack) : List RoutedTrack :=
  if ts.any (·.key == t.key) then ts.map fun x => if x.key == t.key then t else x else ts ++ [t]

/-- the routing loop over all sections in dict order; `sel` = "no selection, or the pair is wanted".
    Result: the tracks in routing order, the number of unparsable lines, the unhandled tags. -/
def routeTracks (res : Int) (evs : List BpmEv) (sel : Nat × Nat → Bool) :
    Sections → M (List RoutedTrack × Nat × List Str)
  | [] => .ok ([], 0, [])
  | (tag, lines) :: rest =>
    match routeOf tag with
    | some r =>
      if sel (r.1, r.2.1) then
        parseTrack res evs lines >>= fun t =>
          routeTracks res evs sel rest >>= fun rr =>
            .ok (⟨(r.1, r.2.1), (r.2.2.1, r.2.2.2), t.1⟩ :: rr.1, t.2 + rr.2.1, rr.2.2)
      else routeTracks res evs sel rest
    | none =>
      routeTracks res evs sel rest >>= fun rr =>
        .ok (rr.1, rr.2.1, if Gen.requiredTags.contains tag then rr.2.2 else tag :: rr.2.2)

/-! ## the chart -/

structure Chart where
  metad : List FieldVal
  res : Int
  sync : Sync
  events : Events
  tracks : List RoutedTrack
  unparsable : Nat             -- `unparsable line` warnings of chartparse.track
  unhandled : List Str         -- `unhandled data section` warnings of chartparse.chart
  deriving Repr, DecidableEq

/-- `data_sections[tag]` after the presence check -/
def lookup (d : Sections) (tag : Str) : M (List Str) :=
  match d.find? (·.1 == tag) with
  | some kv => .ok kv.2
  | none => .error (.internal "KeyError")

def selOf (want : Option (List (Nat × Nat))) (k : Nat × Nat) : Bool :=
  match want with
  | none => true
  | some ws => ws.contains k

def tagAt (i : Nat) : Str := Gen.requiredTags.getD i []

/-- everything that does not depend on the track selection: required-section check, metadata, sync, events -/
structure Shared where
  metad : List FieldVal
  res : Int
  sync : Sync
  events : Events
  unparsable : Nat
  deriving Repr, DecidableEq

def parseShared (secs : Sections) : M Shared :=
  if !(Gen.requiredTags.all fun t => secs.any (·.1 == t)) then .error .valueError
  else
    lookup secs (tagAt 0) >>= fun songLines =>
    parseMeta songLines >>= fun metad =>
    lookup secs (tagAt 1) >>= fun syncLines =>
    parseSync (resOf metad) syncLines >>= fun sy =>
    lookup secs (tagAt 2) >>= fun evLines =>
    parseEvents (resOf metad) sy.1.bpms evLines >>= fun ev =>
      .ok ⟨metad, resOf metad, sy.1, ev.1, sy.2 + ev.2⟩

def parseSections (secs : Sections) (want : Option (List (Nat × Nat))) : M Chart :=
  parseShared secs >>= fun sh =>
    routeTracks sh.res sh.sync.bpms (selOf want) secs >>= fun tr =>
      .ok ⟨sh.metad, sh.res, sh.sync, sh.events, tr.1.foldl putTrack [], sh.unparsable + tr.2.1, tr.2.2⟩

/-- `Chart.from_file(io.StringIO(text), want_tracks = want)` -/
def parseChart (text : Str) (want : Option (List (Nat × Nat))) : M Chart :=
  scanSections (splitlines text) >>= fun secs => parseSections secs want

/-- text-mode reading with `newline=None`: `\r\n` and lone `\r` become `\n` -/
def unlGo : Str → Bool → Str
  | [], _ => []
  | c :: t, skip =>
    if skip && c == 10 then unlGo t false
    else if c == 13 then 10 :: unlGo t true
    else c :: unlGo t false
def universalNewlines (s : Str) : Str := unlGo s false

/-- `Chart.from_filepath` on the decoded code points of the file (`utf-8-sig` drops one leading U+FEFF;
    the codec itself is a trusted parameter) -/
def parsePath (decoded : Str) (want : Option (List (Nat × Nat))) : M Chart :=
  parseChart (universalNewlines (match decoded with | 65279 :: t => t | t => t)) want

end Chartparse
