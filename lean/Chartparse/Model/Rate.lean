import Chartparse.Model.Chart
/-! Model of `Chart.notes_per_second` / `Chart._notes_per_second` (chart.py:243-331). Core Lean only. -/
namespace Chartparse.Rate
open Chartparse Chartparse.F64 Chartparse.Tempo Chartparse.Inst

/-- an interval bound as the caller gave it -/
inductive Bound where
  | omitted | tick (t : Int) | time (us : Int)
  deriving Repr, DecidableEq

/-- timestamps are integer microseconds; the interval is closed at both ends -/
def count (notes : List Int) (s e : Int) : Nat := (notes.filter fun t => decide (s ≤ t) && decide (t ≤ e)).length

/-- `_notes_per_second`: `total_seconds()` is an int/int true division, then `count / seconds` -/
def npsCore (notes : List Int) (s e : Int) : M Rat :=
  if fl (((e - s : Int) : Rat) / 1000000) ≤ 0 then .error .valueError          -- non-positive interval
  else .ok (fl ((count notes s e : Rat) / fl (((e - s : Int) : Rat) / 1000000)))

def findTrack (c : Chart) (key : Nat × Nat) : Option Track := (c.tracks.find? (·.key == key)).map (·.track)

/-- resolve the two bounds; the mixed forms the typed overloads exclude hit an `assert` -/
def bounds (c : Chart) (last : Int) (s e : Bound) : M (Int × Int) :=
  match s, e with
  | .omitted, .omitted => .ok (0, last)
  | .omitted, .tick b => tsAt c.res c.sync.bpms b 0 >>= fun r => .ok (0, r.1)
  | .tick a, .omitted => tsAt c.res c.sync.bpms a 0 >>= fun r => .ok (r.1, last)
  | .tick a, .tick b => tsAt c.res c.sync.bpms a 0 >>= fun r => tsAt c.res c.sync.bpms b 0 >>= fun r' => .ok (r.1, r'.1)
  | .time a, .omitted => .ok (a, last)
  | .time a, .time b => .ok (a, b)
  | _, _ => .error (.internal "AssertionError")

def notesPerSecond (c : Chart) (key : Nat × Nat) (s e : Bound) : M Rat :=
  match findTrack c key with
  | none => .error .valueError                          -- KeyError → ValueError
  | some tr =>
    if tr.notes.isEmpty then .error .valueError
    else match lastNoteEnd tr.notes with
      | none => .error (.internal "AssertionError")
      | some last => bounds c last s e >>= fun se => npsCore (tr.notes.map (·.ts)) se.1 se.2

end Chartparse.Rate
