import Chartparse.Model.Regex
import Chartparse.Gen.Regexes
import Chartparse.Gen.Tables
/-! Model of `Metadata.from_chart_lines` (metadata.py:343-406): for every field, the first line its
    recogniser accepts, the processing function, the dataclass default, the required `Resolution`. -/
namespace Chartparse.Meta
open Chartparse

inductive FieldVal where
  | int (n : Nat) | str (s : Str) | p2 (s : Str) | none
  deriving Repr, DecidableEq

/-- `parse_all_lines_for_field`: group 1 of the first matching line -/
def firstMatch (re : Re) (lines : List Str) : Option Str :=
  lines.findSome? fun l => (re.matchGroups l).bind (grp · 1)

def reOfField (name : String) : Re :=
  match Gen.fieldRes.find? (·.1 == name) with
  | some kv => kv.2
  | none => .cat (.chr (.lit 0)) (.chr (.lit 1))     -- never matches a line; the obligation `gen_fields` excludes it

def ofDefault : Gen.Default → M FieldVal
  | .required => .error .missingRequiredField
  | .none => .ok .none
  | .int n => .ok (.int n)
  | .str s => .ok (.str s)
  | .p2 s => .ok (.p2 s)

/-- processing functions: 0 `int`, 1 `str`, 2 `Player2Instrument(s)` (a miss is a `ValueError`) -/
def process (proc : Nat) (v : Str) : M FieldVal :=
  if proc = 0 then .ok (.int (intOf v))
  else if proc = 1 then .ok (.str v)
  else if Gen.player2.any (·.2 == v) then .ok (.p2 v) else .error .valueError

def parseField (lines : List Str) (f : String × Str × Nat × Gen.Default) : M FieldVal :=
  match firstMatch (reOfField f.1) lines with
  | Option.none => ofDefault f.2.2.2
  | some v => process f.2.2.1 v

def parseFields (lines : List Str) : List (String × Str × Nat × Gen.Default) → M (List FieldVal)
  | [] => .ok []
  | f :: rest => parseField lines f >>= fun v => parseFields lines rest >>= fun vs => .ok (v :: vs)

/-- the field values in `Gen.fields` order -/
def parseMeta (lines : List Str) : M (List FieldVal) := parseFields lines Gen.fields

/-- `metadata.resolution` (position of the field named "resolution") -/
def resOf (vals : List FieldVal) : Int :=
  match (Gen.fields.zip vals).find? (·.1.1 == "resolution") with
  | some (_, .int n) => (n : Int)
  | _ => 0

end Chartparse.Meta
