/-! Shared vocabulary of the chartparse model: strings as code-point lists, the exception classes
    the Python code can raise, and the `Except` monad every fallible step lives in. Core Lean only. -/
namespace Chartparse

/-- a Python `str`: the list of its code points -/
abbrev Str := List Nat

/-- the exception classes of the model. `internal` stands for every undocumented failure
    (`IndexError`, `KeyError`, `UnboundLocalError`, `AssertionError`, `UnreachableError` …). -/
inductive PyErr where
  | valueError | regexNotMatch | missingRequiredField | internal (what : String)
  deriving Repr, DecidableEq

abbrev M := Except PyErr

deriving instance DecidableEq for Except

/-- code points of a literal -/
def cp (s : String) : Str := s.toList.map Char.toNat

end Chartparse
