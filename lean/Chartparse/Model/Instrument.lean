import Chartparse.Model.Tempo
import Chartparse.Model.Dispatch
/-! Model of the instrument track builder (instrument.py): tick grouping, `Note.from_parsed_datas`,
    `complex_sustain_from_parsed_datas`, `_refined_sustain_tuple`, `_longest_sustain`,
    `_compute_hopo_state`, `_compute_star_power_data`, `NoteEvent.from_parsed_data`,
    `_build_note_events_from_data`, `InstrumentTrack.from_chart_lines`, `last_note_end_timestamp`.
    Core Lean only. -/
namespace Chartparse.Inst
open Chartparse Chartparse.F64 Chartparse.Tempo

structure NDatum where
  tick : Nat
  idx : Nat      -- note track index 0..7
  sus : Nat
  deriving Repr, DecidableEq

/-- contiguous equal-tick blocks; the loop's test is `datas[i + 1].tick == datas[i].tick`, i.e. adjacency -/
def groups : List NDatum → List (List NDatum)
  | [] => []
  | d :: ds =>
    match groups ds with
    | (e :: g) :: gs => if e.tick = d.tick then (d :: e :: g) :: gs else [d] :: (e :: g) :: gs
    | _ => [[d]]

/-- `Note.from_parsed_datas`: lane `l` is set iff some datum of the group has index `l` (`l < 5`);
    indices 5..7 fall off the five-slot list through the swallowed `IndexError` -/
def lanes (g : List NDatum) : List Bool := (List.range 5).map fun l => g.any fun d => d.idx == l

inductive Sustain where
  | ticks (n : Nat)
  | tuple (l : List (Option Nat))
  deriving Repr, DecidableEq

/-- `_refined_sustain_tuple` -/
def refine (l : List (Option Nat)) : Sustain :=
  match l.find? Option.isSome with
  | none => .ticks 0                                           -- all `None`
  | some none => .ticks 0                                      -- impossible shape, kept total
  | some (some f) => if l.all (fun d => d.isNone || d == some f) then .ticks f else .tuple l

/-- the per-lane list: later lines overwrite earlier ones; only indices 0..4 (`is_5_note`) count -/
def fill (g : List NDatum) : List (Option Nat) :=
  g.foldl (fun acc d => if d.idx ≤ 4 then acc.set d.idx (some d.sus) else acc) [none, none, none, none, none]

/-- `complex_sustain_from_parsed_datas` -/
def complexSustain (g : List NDatum) : M Sustain :=
  match g with
  | [] => .error (.internal "IndexError")
  | d :: _ => if d.idx = 7 then .ok (.ticks d.sus) else .ok (refine (fill g))

/-- `_longest_sustain` -/
def longest : Sustain → M Nat
  | .ticks n => .ok n
  | .tuple l => match l.filterMap id with
    | [] => .error .valueError
    | x :: xs => .ok (xs.foldl max x)

/-! ### HOPO -/

inductive Hopo where | strum | hopo | tap
  deriving Repr, DecidableEq

def isChord (lanes : List Bool) : Bool := decide (1 < lanes.count true)

/-- `_compute_hopo_state`; `thr` is `note_duration_to_ticks(resolution, EIGHTH_TRIPLET)` -/
def hopoState (thr : Int) (tick : Nat) (lanes : List Bool) (tap forced : Bool)
    (prev : Option (Nat × List Bool)) : M Hopo :=
  if forced && prev.isNone then .error .valueError
  else if tap then .ok .tap
  else match prev with
    | none => .ok .strum
    | some (pt, pl) =>
      let within := decide (((tick : Int) - (pt : Int)) ≤ thr)
      let should := within && (lanes != pl) && !isChord lanes
      if should != forced then .ok .hopo else .ok .strum

/-- `note_duration_to_ticks(resolution, NoteDuration.EIGHTH_TRIPLET)` -/
def tripletThreshold (res : Int) : Int := noteDurationTicks res.toNat Gen.eighthTriplet

/-! ### star power -/

structure Phrase where
  tick : Nat
  len : Nat
  deriving Repr, DecidableEq

/-- `tick_is_after_event` -/
def Phrase.after (p : Phrase) (t : Nat) : Bool := decide (p.tick + p.len ≤ t)
/-- `tick_is_during_event` -/
def Phrase.during (p : Phrase) (t : Nat) : Bool := decide (p.tick ≤ t) && !p.after t

/-- `for candidate_index in range(start, len): if not after: break` on the phrases from `i` on;
    the variable keeps its last value when the loop runs out -/
def cand (t : Nat) : List Phrase → Nat → Nat
  | [], i => i
  | [_], i => i
  | p :: q :: rest, i => if p.after t then cand t (q :: rest) (i + 1) else i

/-- `_compute_star_power_data(tick, phrases, proximal_star_power_event_index = start)` -/
def spData (t : Nat) (sps : List Phrase) (start : Nat) : M (Option Nat × Nat) :=
  if sps.isEmpty then .ok (none, 0)
  else if sps.length ≤ start then .error .valueError
  else
    match sps[cand t (sps.drop start) start]? with
    | none => .error (.internal "UnboundLocalError")
    | some p =>
      if p.during t then .ok (some (cand t (sps.drop start) start), cand t (sps.drop start) start)
      else .ok (none, cand t (sps.drop start) start)

/-! ### note events -/

structure NoteEv where
  tick : Nat
  ts : Int
  endTs : Int
  idx : Nat               -- governing tempo index
  lanes : List Bool
  sustain : Sustain
  hopo : Hopo
  sp : Option Nat
  deriving Repr, DecidableEq

def prevOf (p : Option NoteEv) : Option (Nat × List Bool) := p.map fun e => (e.tick, e.lanes)

/-- `NoteEvent.from_parsed_data`: one tick group → one note event, plus the two cursors for the next group -/
def buildNote (res : Int) (evs : List BpmEv) (sps : List Phrase) (g : List NDatum)
    (prev : Option NoteEv) (bidx sidx : Nat) : M (NoteEv × Nat × Nat) :=
  match g with
  | [] => .error (.internal "IndexError")
  | first :: _ =>
    complexSustain g >>= fun sustain =>
    tsAt res evs first.tick bidx >>= fun r =>
    hopoState (tripletThreshold res) first.tick (lanes g) (g.any fun d => d.idx == 6) (g.any fun d => d.idx == 5)
        (prevOf prev) >>= fun h =>
    spData first.tick sps sidx >>= fun r2 =>
    longest sustain >>= fun lg =>
    tsAt res evs ((first.tick + lg : Nat) : Int) r.2 >>= fun r3 =>
      .ok (⟨first.tick, r.1, r3.1, r.2, lanes g, sustain, h, r2.1⟩, r.2, r2.2)

/-- the loop of `_build_note_events_from_data` over the tick groups -/
def buildNotes (res : Int) (evs : List BpmEv) (sps : List Phrase) :
    List (List NDatum) → Option NoteEv → Nat → Nat → M (List NoteEv)
  | [], _, _, _ => .ok []
  | g :: gs, prev, bidx, sidx =>
    buildNote res evs sps g prev bidx sidx >>= fun r =>
      buildNotes res evs sps gs (some r.1) r.2.1 r.2.2 >>= fun rest => .ok (r.1 :: rest)

structure SpEv where
  tick : Nat
  len : Nat
  ts : Int
  idx : Nat
  deriving Repr, DecidableEq

structure ValEv where      -- track events and global events: a tick and a verbatim value
  tick : Nat
  value : Str
  ts : Int
  idx : Nat
  deriving Repr, DecidableEq

structure Track where
  notes : List NoteEv
  sps : List SpEv
  tes : List ValEv
  deriving Repr, DecidableEq

def noteData (ds : List Datum) : List NDatum :=
  ds.filterMap fun d => match d with | .note t i s => some ⟨t, i, s⟩ | _ => none
def spDataOf (ds : List Datum) : List Phrase :=
  ds.filterMap fun d => match d with | .sp t l => some ⟨t, l⟩ | _ => none
def teData (ds : List Datum) : List (Nat × Str) :=
  ds.filterMap fun d => match d with | .te t v => some (t, v) | _ => none

/-- `InstrumentTrack.from_chart_lines` on already-dispatched data -/
def buildTrack (res : Int) (evs : List BpmEv) (nd : List NDatum) (sd : List Phrase) (td : List (Nat × Str)) :
    M Track :=
  chain res evs (sd.map (·.tick)) 0 >>= fun spts =>
  chain res evs (td.map (·.1)) 0 >>= fun tets =>
  buildNotes res evs sd (groups nd) none 0 0 >>= fun notes =>
    .ok ⟨notes, (sd.zip spts).map (fun ab => ⟨ab.1.tick, ab.1.len, ab.2.1, ab.2.2⟩),
         (td.zip tets).map (fun ab => ⟨ab.1.1, ab.1.2, ab.2.1, ab.2.2⟩)⟩

/-- the section's lines through the dispatcher, then the builder; also the number of unparsable lines -/
def parseTrack (res : Int) (evs : List BpmEv) (lines : List Str) : M (Track × Nat) :=
  buildTrack res evs
      (noteData (dataFor Gen.instrumentKindOrder (dispatch Gen.instrumentKindOrder lines) 0))
      (spDataOf (dataFor Gen.instrumentKindOrder (dispatch Gen.instrumentKindOrder lines) 1))
      (teData (dataFor Gen.instrumentKindOrder (dispatch Gen.instrumentKindOrder lines) 2)) >>= fun t =>
    .ok (t, (Dsp.warnings (dispatch Gen.instrumentKindOrder lines)).length)

/-- `InstrumentTrack.last_note_end_timestamp`: `max(note_events, key=end_timestamp)` — the first maximal one -/
def lastNoteEnd : List NoteEv → Option Int
  | [] => none
  | e :: es => some (es.foldl (fun m x => if m < x.endTs then x.endTs else m) e.endTs)

end Chartparse.Inst
