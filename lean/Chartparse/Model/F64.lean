/-! Soft model of IEEE-754 binary64 round-to-nearest-even on exact rationals (unbounded exponent). -/
namespace Chartparse.F64

def pow2 (e : Int) : Rat := (2 : Rat) ^ e

/-- floor(log2 x) for x > 0. -/
def ilog2 (x : Rat) : Int :=
  let e0 : Int := (Nat.log2 x.num.natAbs : Int) - (Nat.log2 x.den : Int)
  if x < pow2 e0 then e0 - 1 else e0

/-- round half to even, to an integer -/
def rhe (x : Rat) : Int :=
  let f := x.floor
  let d := x - (f : Rat)
  if d < 1/2 then f else if 1/2 < d then f + 1 else if f % 2 = 0 then f else f + 1

/-- nearest binary64 (ties to even) of a non-negative rational -/
def fl (x : Rat) : Rat :=
  if x ≤ 0 then 0 else
  let q := pow2 (ilog2 x - 52)
  (rhe (x / q) : Rat) * q

end Chartparse.F64


namespace Chartparse.F64
/-- `timedelta(seconds = s)` in microseconds for a float `s ≥ 0` -/
def usOfSeconds (s : Rat) : Int :=
  let i := s.floor
  let f := s - (i : Rat)
  if f = 0 then i * 1000000 else rhe ((i : Rat) * 1000000 + fl (1000000 * f))

/-- `ticks * (1 / ((bpm * resolution) / 60))` evaluated in binary64 -/
def secsFromTicks (t : Nat) (bpm : Rat) (res : Nat) : Rat :=
  fl (fl (t : Rat) * fl (1 / fl (fl (bpm * fl (res : Rat)) / 60)))
end Chartparse.F64

namespace Chartparse.F64
/-- Python `round(x, 3)` on the exact value of the float `x ≥ 0` -/
def round3 (x : Rat) : Rat := fl ((rhe (1000 * x) : Rat) / 1000)
/-- `BPMEvent.__post_init__`: `round(bpm, 3) != bpm` raises -/
def validBpm (x : Rat) : Bool := round3 x == x
/-- `note_duration_to_ticks(resolution, d)` for an integral duration value `d`: `round(resolution / d)` -/
def noteDurationTicks (res d : Nat) : Int := rhe (fl ((res : Rat) / (d : Rat)))
end Chartparse.F64
