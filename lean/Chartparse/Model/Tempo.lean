import Chartparse.Model.Basic
import Chartparse.Model.F64
/-! Model of the tempo map: `BPMEvent.from_parsed_data`, `BPMEvents.__post_init__`,
    `BPMEvents._index_of_proximal_event`, `BPMEvents.timestamp_at_tick` and the per-kind event
    chains of `track.build_events_from_data` (sync.py, tick.py, time.py, track.py). Core Lean only.
    Timestamps are integer microseconds; floats are the exact rationals they denote. -/
namespace Chartparse.Tempo
open Chartparse Chartparse.F64

/-- the forward scan: `for index in range(start, last): if events[index+1].tick > tick: return index`
    (`es` = the ticks of the events after position `i`) -/
def scan (tick : Int) : List Nat → Nat → Nat
  | [], i => i
  | e :: es, i => if (e : Int) > tick then i else scan tick es (i + 1)

/-- `_index_of_proximal_event(tick, start_iteration_index = start)` on the list of tempo ticks -/
def indexOfProximal (ticks : List Nat) (tick : Int) (start : Nat) : M Nat :=
  if ticks.length ≤ start then .error .valueError            -- start > index_of_last_event
  else match ticks[start]? with
    | none => .error (.internal "IndexError")                 -- unreachable, see `no_internal`
    | some first =>
      if (first : Int) > tick then .error .valueError         -- tick precedes the first event considered
      else .ok (scan tick (ticks.drop (start + 1)) start)

structure BpmEv where
  tick : Nat
  bpm : Rat        -- the float, as the exact rational it denotes
  ts : Int         -- timestamp in microseconds
  deriving Repr, DecidableEq

/-- `seconds_from_ticks_at_bpm` with its argument validation (`ticks` is a `Nat`: `between` is an `abs`) -/
def secs (ticks : Nat) (bpm : Rat) (res : Int) : M Rat :=
  if bpm ≤ 0 then .error .valueError
  else if res ≤ 0 then .error .valueError
  else .ok (secsFromTicks ticks bpm res.toNat)

/-- the loop of `data_to_bpm_events`: each event is built from the previous one -/
def buildFrom (res : Int) : BpmEv → List (Nat × Rat) → M (List BpmEv)
  | _, [] => .ok []
  | p, (t, b) :: rest =>
    if t ≤ p.tick then .error .valueError                        -- ticks must be strictly increasing
    else match secs (t - p.tick) p.bpm res with
      | .error e => .error e
      | .ok s =>
        let e : BpmEv := ⟨t, b, p.ts + usOfSeconds s⟩
        match buildFrom res e rest with
        | .error err => .error err
        | .ok es => .ok (e :: es)

/-- all tempo events, then the checks of `BPMEvents.__post_init__` -/
def buildMap (res : Int) (raw : List (Nat × Rat)) : M (List BpmEv) :=
  match raw with
  | [] => if res ≤ 0 then .error .valueError else .error .valueError       -- "events must not be empty"
  | (t, b) :: rest =>
    match buildFrom res ⟨t, b, 0⟩ rest with
    | .error e => .error e
    | .ok es =>
      if res ≤ 0 then .error .valueError
      else if t ≠ 0 then .error .valueError
      else .ok (⟨t, b, 0⟩ :: es)

/-- `timestamp_at_tick(tick, start_iteration_index = hint)` -/
def tsAt (res : Int) (evs : List BpmEv) (tick : Int) (hint : Nat) : M (Int × Nat) :=
  match indexOfProximal (evs.map (·.tick)) tick hint with
  | .error e => .error e
  | .ok g =>
    match evs[g]? with
    | none => .error (.internal "IndexError")
    | some ev =>
      match secs (tick - ev.tick).natAbs ev.bpm res with
      | .error e => .error e
      | .ok s => .ok (ev.ts + usOfSeconds s, g)

/-- the per-kind chain of `data_to_events`: each event's scan starts at the previous event's index
    (`prev_event._proximal_bpm_event_index if prev_event else 0`) -/
def chain (res : Int) (evs : List BpmEv) : List Nat → Nat → M (List (Int × Nat))
  | [], _ => .ok []
  | t :: ts, h => tsAt res evs t h >>= fun r => chain res evs ts r.2 >>= fun rest => .ok (r :: rest)

/-- BPM decode after the `fix:` commit: `int(raw_bpm) / 1000`, one correctly rounded division -/
def decodeBpm (n : Nat) : Rat := fl ((n : Rat) / 1000)

/-- the decode as originally shipped: `int(raw[:-3] or 0) + int(raw[-3:]) / 1000` — two roundings.
    Kept for the kernel-checked witness of the C08 defect. -/
def decodeBpmShipped (n : Nat) : Rat := fl (((n / 1000 : Nat) : Rat) + fl (((n % 1000 : Nat) : Rat) / 1000))

end Chartparse.Tempo
