import Chartparse.Model.Lines
/-! Model of `track.parse_data_from_chart_lines` (track.py:55-83). Core Lean only. -/
namespace Chartparse.Dsp

/-- a kind is a decoder from a line to an optional datum; line and datum types stay abstract -/
abbrev Kind (σ δ : Type) := σ → Option δ

/-- try the kinds in order, first match wins (`break`) -/
def classify {σ δ} : List (Kind σ δ) → σ → Nat → Option (Nat × δ)
  | [], _, _ => none
  | k :: ks, line, i => match k line with
    | some d => some (i, d)
    | none => classify ks line (i + 1)

/-- result: for every line in file order either `(position of the kind, datum)` or a warning carrying the line -/
def parseData {σ δ} (kinds : List (Kind σ δ)) (lines : List σ) : List (Sum σ (Nat × δ)) :=
  lines.map fun l => match classify kinds l 0 with
    | some r => .inr r
    | none => .inl l

def dataOf {σ δ} (out : List (Sum σ (Nat × δ))) (k : Nat) : List δ :=
  out.filterMap fun x => match x with | .inr (i, d) => if i = k then some d else none | .inl _ => none
def warnings {σ δ} (out : List (Sum σ (Nat × δ))) : List σ :=
  out.filterMap fun x => match x with | .inl l => some l | .inr _ => none
def dataCount {σ δ} (out : List (Sum σ (Nat × δ))) : Nat :=
  (out.filter fun x => match x with | .inr _ => true | .inl _ => false).length

end Chartparse.Dsp

namespace Chartparse
open Dsp

abbrev Parsed := List (Sum Str (Nat × Datum))

/-- the dispatcher of one section: kinds offered in the recorded order -/
def dispatch (order : List Nat) (lines : List Str) : Parsed := parseData (order.map decodeKind) lines

/-- `parsed_data[K.ParsedData]` — a `defaultdict(list)` lookup keyed by kind -/
def dataFor (order : List Nat) (out : Parsed) (kind : Nat) : List Datum := dataOf out (order.idxOf kind)

end Chartparse
