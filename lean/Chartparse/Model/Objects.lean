/-! C19: a parsed chart object under read-only operations. The instrument map may auto-insert on lookup
    (`collections.defaultdict(dict)`) or not (`dict`) — which one is *regenerated* from the working tree
    (`Gen.trackMapAutoInserts`, probed behaviourally); cached properties write only to a per-object cache slot
    that neither the public observation nor dataclass equality reads. Core Lean only. -/
namespace Chartparse.Obj

/-- the two-level map as Python sees it: instrument ↦ difficulties that have a track -/
abbrev TrackMap := List (Nat × List Nat)

structure Chart where
  tracks : TrackMap
  cache : List (Nat × Nat)        -- cached_property slots (object id ↦ value); not observable
  deriving Repr, DecidableEq

inductive Out where
  | keyError | valueError | found | dict (ds : List Nat) | unit
  deriving Repr, DecidableEq

inductive Op where
  | getItem (i : Nat)                       -- chart[instrument]
  | nps (i d : Nat)                         -- notes_per_second(i, d, …): the look-up part
  | derived (obj val : Nat)                 -- reading a cached property of an event or track
  | pure                                    -- tick-to-time query, str, repr, ==, hash
  deriving Repr, DecidableEq

/-- `self.instrument_tracks[i]` -/
def lookup1 (auto : Bool) (c : Chart) (i : Nat) : Chart × Option (List Nat) :=
  match c.tracks.find? (·.1 == i) with
  | some kv => (c, some kv.2)
  | none => if auto then ({ c with tracks := c.tracks ++ [(i, [])] }, some []) else (c, none)

def step (auto : Bool) (c : Chart) : Op → Chart × Out
  | .getItem i => match lookup1 auto c i with
    | (c', some d) => (c', .dict d)
    | (c', none) => (c', .keyError)
  | .nps i d => match lookup1 auto c i with
    | (c', some dd) => if dd.contains d then (c', .found) else (c', .valueError)      -- KeyError → ValueError
    | (c', none) => (c', .valueError)
  | .derived o v => ({ c with cache := (o, v) :: c.cache }, .unit)
  | .pure => (c, .unit)

def run (auto : Bool) (c : Chart) (ops : List Op) : Chart := ops.foldl (fun c op => (step auto c op).1) c

/-- outputs of a run, for the correspondence check -/
def outs (auto : Bool) : Chart → List Op → List (Out × TrackMap)
  | _, [] => []
  | c, op :: ops => ((step auto c op).2, (step auto c op).1.tracks) :: outs auto (step auto c op).1 ops

/-- what a user can observe, and what `==` with a twin compares: everything but the cache slots -/
def observe (c : Chart) : TrackMap := c.tracks

end Chartparse.Obj
