import Chartparse.Model.Regex
import Chartparse.Gen.Regexes
import Chartparse.Gen.Tables
/-! The nine `ParsedData.from_chart_line` decoders, built from the regenerated recognisers. -/
namespace Chartparse

/-- one parsed body line. Kind ids: 0 note, 1 sp, 2 te, 3 bpm, 4 ts, 5 anchor, 6 lyric, 7 section, 8 text -/
inductive Datum where
  | note (tick idx sus : Nat)
  | sp (tick len : Nat)
  | te (tick : Nat) (v : Str)
  | bpm (tick : Nat) (raw : Str)
  | ts (tick upper : Nat) (lower : Option Nat)
  | anchor (tick us : Nat)
  | ev (kind : Nat) (tick : Nat) (v : Str)        -- 6 lyric, 7 section, 8 text
  deriving Repr, DecidableEq

def kindRe : Nat → Re
  | 0 => Gen.noteRe | 1 => Gen.spRe | 2 => Gen.teRe | 3 => Gen.bpmRe | 4 => Gen.tsRe | 5 => Gen.anchorRe
  | 6 => Gen.lyricRe | 7 => Gen.sectionRe | 8 => Gen.textRe | _ => .eol

/-- group `i` of a successful match; every group the decoders read is mandatory in its pattern
    except TS group 3, which is read through `grp` directly -/
def grpD (cs : Caps) (i : Nat) : Str := (grp cs i).getD []

/-- `K.ParsedData.from_chart_line(line)`; `none` = `RegexNotMatchError` -/
def decodeKind (kind : Nat) (line : Str) : Option Datum :=
  match (kindRe kind).matchGroups line with
  | none => none
  | some cs =>
    match kind with
    | 0 => some (.note (intOf (grpD cs 1)) (intOf (grpD cs 2)) (intOf (grpD cs 3)))
    | 1 => some (.sp (intOf (grpD cs 1)) (intOf (grpD cs 2)))
    | 2 => some (.te (intOf (grpD cs 1)) (grpD cs 2))
    | 3 => some (.bpm (intOf (grpD cs 1)) (grpD cs 2))
    | 4 => some (.ts (intOf (grpD cs 1)) (intOf (grpD cs 2)) ((grp cs 3).map intOf))
    | 5 => some (.anchor (intOf (grpD cs 1)) (intOf (grpD cs 2)))
    | 6 => some (.ev 6 (intOf (grpD cs 1)) (grpD cs 2))
    | 7 => some (.ev 7 (intOf (grpD cs 1)) (grpD cs 2))
    | 8 => some (.ev 8 (intOf (grpD cs 1)) (grpD cs 2))
    | _ => none

end Chartparse
