import Chartparse.Model.Basic
/-! Syntax of the sre subset used by chartparse's shipped patterns. The translator emits terms of `Re`
    (`Gen/Regexes.lean`); the engine is in `Model/Regex.lean`. -/
namespace Chartparse

inductive CSet where
  | lit (c : Nat)
  | notLit (c : Nat)
  | any                      -- `.` without DOTALL: anything but '\n'
  | space | digit            -- `\s`, `\d` under re.UNICODE: Python's own tables (`Gen/Unicode.lean`)
  | range (lo hi : Nat)
  deriving Repr, DecidableEq

inductive Re where
  | eps
  | eol                                  -- `$`: at the end, or before a final '\n'
  | chr (s : CSet)
  | cat (a b : Re)
  | star (greedy : Bool) (s : CSet)      -- `s*` / `s*?` of a single character class
  | opt (greedy : Bool) (a : Re)         -- `a?` / `a??`
  | group (i : Nat) (a : Re)
  deriving Repr, DecidableEq

/-- captures: (group number, text); the most recently closed group first -/
abbrev Caps := List (Nat × Str)

/-- the translator's canonical constructions (templates in `Proofs/` use the same ones, so that
    `Gen.x = Template.x` is a syntactic equality `decide` can close) -/
def lits (s : Str) : Re := s.foldr (fun c acc => .cat (.chr (.lit c)) acc) .eps
def plus (greedy : Bool) (s : CSet) : Re := .cat (.chr s) (.star greedy s)

end Chartparse
