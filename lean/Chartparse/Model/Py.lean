import Chartparse.Model.Basic
import Chartparse.Model.F64
/-! A deep embedding of the tiny expression / statement subset of Python that chartparse's *arithmetic leaf functions* are
    written in (`seconds_from_ticks_at_bpm`, `note_duration_to_ticks`, the BPM decode, the three-decimal validation,
    `_notes_per_second`'s division). The translator dumps the functions' ASTs from /repo into `Gen/Leaf.lean` as values of
    these types — it does no semantic work — and `Tie/Leaf.lean` proves that evaluating those ASTs is the hand model's
    float chain. Core Lean only.

    Values: `int` (unbounded), `float` (binary64, as the exact rational it denotes — the float model of `Model/F64.lean`,
    extended to negative numbers by symmetry of round-half-even), `bool`, `timedelta` (whole microseconds). Anything outside
    that domain (other types, other operators, exponent overflow) evaluates to `unsupported`, never to a guessed value. -/
namespace Chartparse.Py
open Chartparse Chartparse.F64

inductive Val where
  | int (n : Int) | flt (x : Rat) | bool (b : Bool) | td (us : Int) | none
  | obj (key : List Bool)      -- an opaque object (a `Note` member …): only `==` / `!=` look at it, `key` names its equality class
  | enum (name : String)       -- an enum member named in the source (`HOPOState.TAP`)
  | ints (l : List Int)        -- a sequence seen through one integer attribute of its elements (`self[i].tick`)
  | flts (l : List Rat)        -- … through one float attribute (`self.events[i].bpm`)
  | tds (l : List Int)         -- … through one timedelta attribute, in microseconds (`self.events[i].timestamp`)
  | pair (a b : Val)           -- a 2-tuple (`return timestamp, index`)
  deriving Repr, DecidableEq

inductive BinOp where | add | sub | mul | truediv | pow
  deriving Repr, DecidableEq
inductive CmpOp where | lt | le | gt | ge | eq | ne
  deriving Repr, DecidableEq

inductive Expr where
  | int (n : Int)
  | var (x : String)
  | bin (op : BinOp) (a b : Expr)
  | cmp (op : CmpOp) (a b : Expr)
  | round (a : Expr)              -- `round(x)`
  | roundN (a : Expr) (n : Nat)   -- `round(x, n)`; only n = 3 is given a meaning
  | intOf (a : Expr)              -- `int(x)` on an int (the digits were decoded by the regex model)
  | cast (a : Expr)               -- `Tick(x)`, `Ticks(x)`, `Seconds(x)`, `Timestamp(x)`: `typing.NewType` is the identity
  | abs (a : Expr)
  | totalSeconds (a : Expr)       -- `td.total_seconds()`
  | tdMicros (a : Expr)           -- `timedelta(microseconds=n)` for an int `n`: exact
  | not (a : Expr)                -- on a bool
  | and (a b : Expr)              -- on bools, short-circuit
  | or (a b : Expr)               -- on bools, short-circuit
  | isNone (a : Expr)             -- `a is None`
  | const (name : String)         -- a dotted name that resolves to an enum member
  | len (a : Expr)                -- `len(seq)`
  | idx (a : Expr) (i : Expr)     -- `seq[i].attr` on a sequence given by that attribute (Python indexing: negative from the end)
  | tdSeconds (a : Expr)          -- `timedelta(seconds=x)` for a non-negative float (or an int) `x`
  | isFloat (a : Expr)            -- `isinstance(a, float)`
  | isTd (a : Expr)               -- `isinstance(a, timedelta)`
  | pair (a b : Expr)             -- `a, b`
  | ifExp (c a b : Expr)          -- `a if c else b`
  deriving Repr, DecidableEq

inductive Stmt where
  | assign (x : String) (e : Expr)
  | ifRaise (c : Expr) (exc : PyErr)      -- `if c: raise Exc(...)`
  | ifRet (c : Expr) (e : Expr)           -- `if c: return e`
  | ifElseRet (c : Expr) (a b : Expr)     -- `if c: return a` / `else: return b`
  | forRangeIfRet (v : String) (lo hi : Expr) (c : Expr) (r : Expr)   -- `for v in range(lo, hi): if c: return r`
  | ret (e : Expr)
  | ifBlockRet (c : Expr) (lets : List (String × Expr)) (r : Expr)   -- `if c:` a few assignments, then `return r`
  | raise (exc : PyErr)                                              -- an unconditional `raise Exc(...)`
  | assignCall (x : String) (f : String) (args : List Expr)         -- `x = f(args…)`, `f` a function of /repo translated in its own right
  deriving Repr, DecidableEq

abbrev Env := List (String × Val)

def unsupported (what : String) : M Val := .error (.internal ("unsupported: " ++ what))

/-- nearest binary64 of any rational: round-half-even is symmetric about zero -/
def fls (x : Rat) : Rat := if x < 0 then -(fl (-x)) else fl x

/-- `float(n)` for an int: correctly rounded (exact below 2⁵³) -/
def toFlt : Val → Option Rat
  | .int n => some (fls (n : Rat))
  | .flt x => some x
  | _ => none

def isFloatOp (a b : Val) : Bool :=
  match a, b with
  | .flt _, .int _ | .int _, .flt _ | .flt _, .flt _ => true
  | _, _ => false

/-- exact numeric value, for comparisons (Python compares int with float exactly) -/
def numVal : Val → Option Rat
  | .int n => some (n : Rat)
  | .flt x => some x
  | .td us => some (us : Rat)
  | _ => none

def sameKind (a b : Val) : Bool :=
  match a, b with
  | .td _, .td _ => true
  | .td _, _ | _, .td _ => false
  | .int _, .int _ | .int _, .flt _ | .flt _, .int _ | .flt _, .flt _ => true
  | _, _ => false

def evalBin (op : BinOp) (a b : Val) : M Val :=
  match op, a, b with
  | .add, .int x, .int y => .ok (.int (x + y))
  | .sub, .int x, .int y => .ok (.int (x - y))
  | .mul, .int x, .int y => .ok (.int (x * y))
  | .truediv, .int x, .int y =>
    if y = 0 then .error (.internal "ZeroDivisionError")
    else .ok (.flt (fls ((x : Rat) / (y : Rat))))                     -- int / int is correctly rounded
  | .pow, .int x, .int y => if 0 ≤ y then .ok (.int (x ^ y.toNat)) else unsupported "negative exponent"
  | .pow, _, _ => unsupported "power of a non-int"
  | .add, .td x, .td y => .ok (.td (x + y))
  | .sub, .td x, .td y => .ok (.td (x - y))
  | op, a, b =>
    if isFloatOp a b then
      match toFlt a, toFlt b with
      | some x, some y =>
        match op with
        | .add => .ok (.flt (fls (x + y)))
        | .sub => .ok (.flt (fls (x - y)))
        | .mul => .ok (.flt (fls (x * y)))
        | .truediv => if y = 0 then .error (.internal "ZeroDivisionError") else .ok (.flt (fls (x / y)))
        | .pow => unsupported "power of a float"
      | _, _ => unsupported "operand types"
    else unsupported "operand types"

/-- `==` / `!=` on values that only have equality -/
def evalEq (op : CmpOp) (same : Bool) : M Val :=
  match op with
  | .eq => .ok (.bool same) | .ne => .ok (.bool (!same)) | _ => unsupported "ordering of objects"

def evalCmp (op : CmpOp) (a b : Val) : M Val :=
  match a, b with
  | .obj x, .obj y => evalEq op (x == y)
  | .enum x, .enum y => evalEq op (x == y)
  | .bool x, .bool y => evalEq op (x == y)
  | _, _ =>
  if !sameKind a b then unsupported "comparison types" else
  match numVal a, numVal b with
  | some x, some y =>
    .ok (.bool (match op with
      | .lt => decide (x < y) | .le => decide (x ≤ y) | .gt => decide (y < x) | .ge => decide (y ≤ x)
      | .eq => decide (x = y) | .ne => decide (x ≠ y)))
  | _, _ => unsupported "comparison types"

def lookup (env : Env) (x : String) : M Val :=
  match env.find? (·.1 == x) with
  | some kv => .ok kv.2
  | none => .error (.internal ("NameError " ++ x))

def evalExpr (env : Env) : Expr → M Val
  | .int n => .ok (.int n)
  | .var x => lookup env x
  | .bin op a b => evalExpr env a >>= fun va => evalExpr env b >>= fun vb => evalBin op va vb
  | .cmp op a b => evalExpr env a >>= fun va => evalExpr env b >>= fun vb => evalCmp op va vb
  | .round a => evalExpr env a >>= fun v =>
    match v with
    | .int n => .ok (.int n)
    | .flt x => .ok (.int (rhe x))                                    -- round half to even (`rhe` is defined on all rationals)
    | _ => unsupported "round"
  | .roundN a n => evalExpr env a >>= fun v =>
    match v with
    | .flt x => if n = 3 ∧ 0 ≤ x then .ok (.flt (round3 x)) else unsupported "round ndigits"
    | _ => unsupported "round ndigits"
  | .intOf a => evalExpr env a >>= fun v =>
    match v with
    | .int n => .ok (.int n)
    | _ => unsupported "int()"
  | .cast a => evalExpr env a
  | .abs a => evalExpr env a >>= fun v =>
    match v with
    | .int n => .ok (.int (n.natAbs : Int))
    | .flt x => .ok (.flt (if x < 0 then -x else x))
    | _ => unsupported "abs"
  | .totalSeconds a => evalExpr env a >>= fun v =>
    match v with
    | .td us => .ok (.flt (fls ((us : Rat) / 1000000)))            -- int / int true division on the microsecond count
    | _ => unsupported "total_seconds"
  | .tdMicros a => evalExpr env a >>= fun v =>
    match v with
    | .int n => .ok (.td n)
    | _ => unsupported "timedelta(microseconds=float)"
  | .not a => evalExpr env a >>= fun v =>
    match v with
    | .bool b => .ok (.bool (!b))
    | _ => unsupported "not on a non-bool"
  | .and a b => evalExpr env a >>= fun v =>
    match v with
    | .bool false => .ok (.bool false)
    | .bool true => evalExpr env b >>= fun w => match w with | .bool c => .ok (.bool c) | _ => unsupported "and on a non-bool"
    | _ => unsupported "and on a non-bool"
  | .or a b => evalExpr env a >>= fun v =>
    match v with
    | .bool true => .ok (.bool true)
    | .bool false => evalExpr env b >>= fun w => match w with | .bool c => .ok (.bool c) | _ => unsupported "or on a non-bool"
    | _ => unsupported "or on a non-bool"
  | .isNone a => evalExpr env a >>= fun v => .ok (.bool (v == .none))
  | .const name => .ok (.enum name)
  | .len a => evalExpr env a >>= fun v =>
    match v with
    | .ints l => .ok (.int l.length)
    | _ => unsupported "len"
  | .idx a i => evalExpr env a >>= fun v => evalExpr env i >>= fun w =>
    match v, w with
    | .ints l, .int k =>
      let j : Int := if k < 0 then k + l.length else k
      if j < 0 then .error (.internal "IndexError")
      else match l[j.toNat]? with
        | some x => .ok (.int x)
        | none => .error (.internal "IndexError")
    | .flts l, .int k =>
      let j : Int := if k < 0 then k + l.length else k
      if j < 0 then .error (.internal "IndexError")
      else match l[j.toNat]? with
        | some x => .ok (.flt x)
        | none => .error (.internal "IndexError")
    | .tds l, .int k =>
      let j : Int := if k < 0 then k + l.length else k
      if j < 0 then .error (.internal "IndexError")
      else match l[j.toNat]? with
        | some x => .ok (.td x)
        | none => .error (.internal "IndexError")
    | _, _ => unsupported "indexing"
  | .tdSeconds a => evalExpr env a >>= fun v =>
    match v with
    | .flt x => if 0 ≤ x then .ok (.td (usOfSeconds x)) else unsupported "timedelta(seconds=negative)"
    | .int n => .ok (.td (n * 1000000))
    | _ => unsupported "timedelta(seconds=…)"
  | .isFloat a => evalExpr env a >>= fun v => .ok (.bool (match v with | .flt _ => true | _ => false))
  | .isTd a => evalExpr env a >>= fun v => .ok (.bool (match v with | .td _ => true | _ => false))
  | .pair a b => evalExpr env a >>= fun va => evalExpr env b >>= fun vb => .ok (.pair va vb)
  | .ifExp c a b => evalExpr env c >>= fun v =>
    match v with
    | .bool true => evalExpr env a
    | .bool false => evalExpr env b
    | _ => unsupported "condition"

/-- the assignments of an `if` arm, in order -/
def evalLets : Env → List (String × Expr) → M Env
  | env, [] => .ok env
  | env, (x, e) :: rest => evalExpr env e >>= fun v => evalLets ((x, v) :: env) rest

def evalArgs (env : Env) : List Expr → M (List Val)
  | [] => .ok []
  | e :: es => evalExpr env e >>= fun v => evalArgs env es >>= fun vs => .ok (v :: vs)

/-- `for v in range(k, k + n): if c: return r` — the value returned from inside, if any, and the environment afterwards
    (the loop variable keeps its last value) -/
def forLoop (evalC evalR : Env → M Val) (v : String) : Env → Int → Nat → M (Option Val × Env)
  | env, _, 0 => .ok (none, env)
  | env, k, n + 1 =>
    evalC ((v, .int k) :: env) >>= fun c =>
      match c with
      | .bool true => evalR ((v, .int k) :: env) >>= fun r => .ok (some r, (v, .int k) :: env)
      | .bool false => forLoop evalC evalR v ((v, .int k) :: env) (k + 1) n
      | _ => .error (.internal "unsupported: condition")

/-- a function body: straight-line guards, assignments, one return -/
def evalBody (env : Env) : List Stmt → M Val
  | [] => .ok .none
  | .assign x e :: rest => evalExpr env e >>= fun v => evalBody ((x, v) :: env) rest
  | .ifRaise c exc :: rest => evalExpr env c >>= fun v =>
    match v with
    | .bool true => .error exc
    | .bool false => evalBody env rest
    | _ => unsupported "condition"
  | .ifRet c e :: rest => evalExpr env c >>= fun v =>
    match v with
    | .bool true => evalExpr env e
    | .bool false => evalBody env rest
    | _ => unsupported "condition"
  | .ifElseRet c a b :: _ => evalExpr env c >>= fun v =>
    match v with
    | .bool true => evalExpr env a
    | .bool false => evalExpr env b
    | _ => unsupported "condition"
  | .forRangeIfRet v lo hi c r :: rest => evalExpr env lo >>= fun a => evalExpr env hi >>= fun b =>
    match a, b with
    | .int a, .int b =>
      forLoop (fun e => evalExpr e c) (fun e => evalExpr e r) v env a (b - a).toNat >>= fun res =>
        match res.1 with
        | some x => .ok x
        | none => evalBody res.2 rest
    | _, _ => unsupported "range bounds"
  | .ret e :: _ => evalExpr env e
  | .ifBlockRet c lets r :: rest => evalExpr env c >>= fun v =>
    match v with
    | .bool true => evalLets env lets >>= fun env' => evalExpr env' r
    | .bool false => evalBody env rest
    | _ => unsupported "condition"
  | .raise exc :: _ => .error exc
  | .assignCall _ _ _ :: _ => unsupported "call (use evalBodyC)"

/-- run guards and assignments, give back the environment (for leaves that are a few statements of a longer method) -/
def execBody (env : Env) : List Stmt → M Env
  | [] => .ok env
  | .assign x e :: rest => evalExpr env e >>= fun v => execBody ((x, v) :: env) rest
  | .ifRaise c exc :: rest => evalExpr env c >>= fun v =>
    match v with
    | .bool true => .error exc
    | .bool false => execBody env rest
    | _ => .error (.internal "unsupported: condition")
  | .ifRet _ _ :: _ => .ok env
  | .ifElseRet _ _ _ :: _ => .ok env
  | .forRangeIfRet _ _ _ _ _ :: _ => .ok env
  | .ret _ :: _ => .ok env
  | .ifBlockRet _ _ _ :: _ => .ok env
  | .raise exc :: _ => .error exc
  | .assignCall _ _ _ :: _ => .error (.internal "unsupported: call (use evalBodyC)")

/-- the value a name holds after the statements ran -/
def valueOf (env : Env) (stmts : List Stmt) (x : String) : M Val := execBody env stmts >>= fun e => lookup e x

/-- a function body that calls other translated functions: `call f args` is the callee's own body evaluated on `args`
    (the table is generated next to the ASTs, callees before callers, so there is no recursion) -/
def evalBodyC (call : String → List Val → M Val) (env : Env) : List Stmt → M Val
  | [] => .ok .none
  | .assignCall x f args :: rest => evalArgs env args >>= fun vs => call f vs >>= fun v => evalBodyC call ((x, v) :: env) rest
  | .assign x e :: rest => evalExpr env e >>= fun v => evalBodyC call ((x, v) :: env) rest
  | .ifRaise c exc :: rest => evalExpr env c >>= fun v =>
    match v with
    | .bool true => .error exc
    | .bool false => evalBodyC call env rest
    | _ => unsupported "condition"
  | .ret e :: _ => evalExpr env e
  | .raise exc :: _ => .error exc
  | _ :: _ => unsupported "statement form next to calls"

/-- `execBody` next to calls: the environment after guards, assignments and calls -/
def execBodyC (call : String → List Val → M Val) (env : Env) : List Stmt → M Env
  | [] => .ok env
  | .assignCall x f args :: rest => evalArgs env args >>= fun vs => call f vs >>= fun v => execBodyC call ((x, v) :: env) rest
  | .assign x e :: rest => evalExpr env e >>= fun v => execBodyC call ((x, v) :: env) rest
  | .ifRaise c exc :: rest => evalExpr env c >>= fun v =>
    match v with
    | .bool true => .error exc
    | .bool false => execBodyC call env rest
    | _ => .error (.internal "unsupported: condition")
  | .raise exc :: _ => .error exc
  | _ :: _ => .ok env

def valueOfC (call : String → List Val → M Val) (env : Env) (stmts : List Stmt) (x : String) : M Val :=
  execBodyC call env stmts >>= fun e => lookup e x

end Chartparse.Py
