import Chartparse.Model.Basic
/-! A deep embedding of the *imperative* subset of Python that chartparse's loops and glue are written in: mutable locals,
    `while`, `for … in` (lists, `range`, `enumerate`) with `break` / `continue` / `else`, `if` / `elif` / `else` blocks,
    `try … except <one class>`, tuple unpacking, list `append` / item assignment, slices, negative indexing, attribute reads,
    dataclass construction, truthiness, short-circuit `and` / `or`, and calls into other code (`ext`, a parameter).

    The translator (`verif/translate.py`, section `Imp`) maps the `ast` of a function of /repo to a `Stmt` term of this file,
    node by node; what the term *means* is `exec` below. `Tie/Loop*.lean` proves, for all inputs, that running the dumped term
    is the hand model's function. Core Lean only, so the native driver can run the terms against CPython on every run.

    Values are a plain (non-nested) inductive: lists, tuples and field lists are spines of `cons` / `field`, so that
    `DecidableEq` derives and every recursion below is structural. Lists are *values* (no aliasing); the translator refuses
    functions in which a mutated list could be reachable under two names. -/
namespace Chartparse.PyImp
open Chartparse

inductive Val where
  | int (n : Int) | bool (b : Bool) | none
  | str (s : List Nat)
  | td (us : Int)                              -- a `timedelta`, whole microseconds
  | nil | cons (hd tl : Val)                   -- spine of a list / tuple
  | list (spine : Val) | tup (spine : Val)
  | fnil | field (name : String) (v rest : Val) -- spine of an object's attributes
  | obj (cls : String) (fields : Val)          -- an instance (dataclass, enum member, anything seen through its attributes)
  | dict (entries : Val)                       -- a `dict`: spine of `tup (key, value)` in insertion order
  deriving Repr, DecidableEq, Inhabited

def Val.ofList : List Val → Val
  | [] => .nil
  | x :: xs => .cons x (Val.ofList xs)

def Val.toList? : Val → Option (List Val)
  | .nil => some []
  | .cons h t => (Val.toList? t).map (h :: ·)
  | _ => Option.none

@[simp] theorem Val.toList?_ofList (l : List Val) : Val.toList? (Val.ofList l) = some l := by
  induction l with
  | nil => rfl
  | cons x xs ih => simp [Val.ofList, Val.toList?, ih]

def Val.getField (name : String) : Val → Option Val
  | .field n v rest => if n = name then some v else Val.getField name rest
  | _ => Option.none

inductive BinOp where | add | sub | mul | pow
  deriving Repr, DecidableEq
inductive CmpOp where | lt | le | gt | ge | eq | ne
  deriving Repr, DecidableEq

inductive Expr where
  | lit (v : Val)
  | var (x : String)
  | attr (e : Expr) (name : String)
  | index (e i : Expr)
  | slice (e lo hi : Expr)
  | bin (op : BinOp) (a b : Expr)
  | cmp (op : CmpOp) (a b : Expr)
  | not (a : Expr)
  | and (a b : Expr)
  | or (a b : Expr)
  | isNone (a : Expr)
  | len (a : Expr)
  | range (lo hi : Expr)
  | enumerate (a : Expr)
  | ifExp (c a b : Expr)
  | enil | econs (hd tl : Expr)                 -- argument / element spines
  | mkList (spine : Expr) | mkTup (spine : Expr)
  | fnilE | fcons (name : String) (e rest : Expr)
  | ctor (cls : String) (fields : Expr)         -- `Cls(name=e, …)`
  | call (f : String) (args : Expr)             -- a call into other code: `ext f args`
  | toTup (a : Expr)                            -- `tuple(a)`
  | isInt (a : Expr)                            -- `isinstance(a, int)`
  | isTd (a : Expr)                             -- `isinstance(a, timedelta)`
  | anyGen (v : String) (it c e : Expr)         -- `any(e for v in it if c)`, short-circuit
  | allGen (v : String) (it c e : Expr)         -- `all(e for v in it if c)`, short-circuit
  | nextGen (v : String) (it c e : Expr)        -- `next(e for v in it if c)`: the first one (`StopIteration` if none)
  | maxGen (v : String) (it c e : Expr)         -- `max(e for v in it if c)` on ints (`ValueError` if none)
  | contains (a b : Expr)                       -- `a in b` (keys of a dict, elements of a list / tuple)
  | comp (v : String) (it c e : Expr)           -- `[e for v in it if c]` / `filter(lambda v: c, it)` made a list
  | maxKey (v : String) (it key : Expr)         -- `max(it, key=lambda v: key)`: the first element whose key is largest
  | items (a : Expr)                            -- `a.items()` of a dict, made a list of pairs (insertion order)
  deriving Repr, DecidableEq, Inhabited

inductive Stmt where
  | skip
  | seq (a b : Stmt)
  | assign (x : String) (e : Expr)
  | unpack (xs : List String) (e : Expr)        -- `a, b, c = e`
  | setIdx (x : String) (i e : Expr)            -- `x[i] = e` on a local list
  | append (x : String) (e : Expr)              -- `x.append(e)` on a local list
  | appendAt (x : String) (k e : Expr)          -- `x[k].append(e)` on a local map from keys to lists that creates missing entries
  | ite (c : Expr) (a b : Stmt)
  | while (c : Expr) (b : Stmt)
  | forIn (v : String) (e : Expr) (b orelse : Stmt)
  | forVals (v : String) (items : Val) (b orelse : Stmt)   -- internal: the iterations still to run
  | brk | cont
  | ret (e : Expr)
  | raise (exc : PyErr)
  | tryExcept (b : Stmt) (kind : PyErr) (h : Stmt)
  | warn (e : Expr)                             -- `logger.warning(e)`: appended to the variable `$log`
  | setDefaultIdx (x : String) (k k2 e : Expr)  -- `x.setdefault(k, dict())[k2] = e` on a local dict of dicts
  deriving Repr, Inhabited

/-- a slot per name; `none` = a local that has not been assigned yet (reading it is `UnboundLocalError`) -/
abbrev Env := List (String × Option Val)
abbrev Ext := String → List Val → M Val

def unsupported (what : String) : M α := .error (.internal ("unsupported: " ++ what))

/-- every local of a function has its slot from the start (`unbound` until assigned), so the environment keeps one shape -/
def lookup (env : Env) (x : String) : M Val :=
  match env.find? (·.1 == x) with
  | some (_, some v) => .ok v
  | some (_, Option.none) => .error (.internal "UnboundLocalError")
  | Option.none => .error (.internal ("NameError " ++ x))

/-- assignment: the slot is overwritten in place (a name without a slot gets one at the end) -/
def setVar : Env → String → Val → Env
  | [], x, v => [(x, some v)]
  | (y, w) :: rest, x, v => if y == x then (x, some v) :: rest else (y, w) :: setVar rest x v

/-- the environment a call starts in: parameters bound, the other locals unbound -/
def initEnv (params : List (String × Val)) (locals : List String) : Env :=
  params.map (fun p => (p.1, some p.2)) ++ locals.map fun x => (x, Option.none)

/-- Python truthiness. An instance of a class with `__len__` / `__bool__` is serialised under a class name starting with
    `sized:` and has no truth value here. -/
def truth : Val → M Bool
  | .bool b => .ok b
  | .none => .ok false
  | .int n => .ok (n != 0)
  | .str s => .ok (!s.isEmpty)
  | .td us => .ok (us != 0)
  | .list sp => .ok (sp != .nil)
  | .tup sp => .ok (sp != .nil)
  | .dict sp => .ok (sp != .nil)
  | .obj cls _ => if cls.startsWith "sized:" then unsupported "truth of a sized object" else .ok true
  | _ => unsupported "truth"

/-- Python's index normalisation: negative from the end -/
def normIdx (k : Int) (len : Nat) : Option Nat :=
  let j : Int := if k < 0 then k + len else k
  if j < 0 then none else if j.toNat < len then some j.toNat else none

/-- slice bound clamping (`lo`, `hi` given; step 1) -/
def clampIdx (k : Int) (len : Nat) : Nat :=
  let j : Int := if k < 0 then k + len else k
  if j < 0 then 0 else if len < j.toNat then len else j.toNat

def evalBin (op : BinOp) (a b : Val) : M Val :=
  match op, a, b with
  | .add, .int x, .int y => .ok (.int (x + y))
  | .sub, .int x, .int y => .ok (.int (x - y))
  | .mul, .int x, .int y => .ok (.int (x * y))
  | .add, .td x, .td y => .ok (.td (x + y))
  | .sub, .td x, .td y => .ok (.td (x - y))
  | .pow, .int x, .int y => if 0 ≤ y then .ok (.int (x ^ y.toNat)) else unsupported "negative exponent"
  | .mul, .list sp, .int n =>
    match sp.toList? with
    | some l => .ok (.list (Val.ofList ((List.replicate n.toNat l).flatten)))
    | none => unsupported "list repetition"
  | _, _, _ => unsupported "operand types"

def numOf : Val → Option Int
  | .int n => some n
  | .td us => some us
  | _ => none

def sameNumKind : Val → Val → Bool
  | .int _, .int _ => true
  | .td _, .td _ => true
  | _, _ => false

def evalCmp (op : CmpOp) (a b : Val) : M Val :=
  match op with
  | .eq => .ok (.bool (a == b))
  | .ne => .ok (.bool (a != b))
  | _ =>
    if sameNumKind a b then
      match numOf a, numOf b with
      | some x, some y =>
        .ok (.bool (match op with
          | .lt => decide (x < y) | .le => decide (x ≤ y) | .gt => decide (y < x) | _ => decide (y ≤ x)))
      | _, _ => unsupported "ordering"
    else unsupported "ordering"

def seqOf : Val → Option (List Val)
  | .list sp => sp.toList?
  | .tup sp => sp.toList?
  | _ => none

/-- the entries of a dict as (key, value) pairs -/
def dictEntries (sp : Val) : Option (List (Val × Val)) :=
  match sp.toList? with
  | some l => l.mapM fun e => match e with
    | .tup (.cons k (.cons v .nil)) => some (k, v)
    | _ => Option.none
  | Option.none => Option.none

def encEntries (l : List (Val × Val)) : Val := Val.ofList (l.map fun kv => .tup (.cons kv.1 (.cons kv.2 .nil)))

/-- `d[k] = v`: an existing key keeps its position -/
def dictSet (l : List (Val × Val)) (k v : Val) : List (Val × Val) :=
  if l.any (·.1 == k) then l.map fun kv => if kv.1 == k then (k, v) else kv else l ++ [(k, v)]

/-- `v.name` -/
def attrVal (v : Val) (name : String) : M Val :=
  match v with
  | .obj _ fs => match fs.getField name with
    | some w => .ok w
    | none => .error (.internal "AttributeError")
  | _ => unsupported "attribute of a non-object"

/-- `v[w]` on a list / tuple -/
def indexVal (v w : Val) : M Val :=
  match v with
  | .dict sp => match dictEntries sp with
    | some l => match l.find? (·.1 == w) with
      | some kv => .ok kv.2
      | Option.none => .error (.internal "KeyError")
    | Option.none => unsupported "dict"
  | _ =>
  match seqOf v, w with
  | some l, .int k =>
    match normIdx k l.length with
    | some j => match l[j]? with
      | some x => .ok x
      | none => .error (.internal "IndexError")
    | none => .error (.internal "IndexError")
  | _, _ => unsupported "indexing"

/-- a slice bound: `None` is the default -/
def boundOf (b : Val) (len dflt : Nat) : Option Nat :=
  match b with
  | .int k => some (clampIdx k len)
  | .none => some dflt
  | _ => Option.none

/-- `v[a:b]` on a list / tuple -/
def sliceVal (v a b : Val) : M Val :=
  match seqOf v with
  | some l =>
    match boundOf a l.length 0, boundOf b l.length l.length with
    | some lo, some hi =>
      match v with
      | .list _ => .ok (.list (Val.ofList ((l.take hi).drop lo)))
      | _ => .ok (.tup (Val.ofList ((l.take hi).drop lo)))
    | _, _ => unsupported "slice bounds"
  | Option.none => unsupported "slice"

/-- `len(v)` -/
def lenVal (v : Val) : M Val :=
  match seqOf v with
  | some l => .ok (.int l.length)
  | Option.none => match v with
    | .str s => .ok (.int s.length)
    | _ => unsupported "len"

/-- does some element pass? (`f` is asked element by element, stopping at the first `true`) -/
def anyM (f : Val → M Bool) : List Val → M Bool
  | [] => .ok false
  | x :: xs => f x >>= fun b => if b then .ok true else anyM f xs

def allM (f : Val → M Bool) : List Val → M Bool
  | [] => .ok true
  | x :: xs => f x >>= fun b => if b then allM f xs else .ok false

/-- `[e x for x in xs if c x]` -/
def compM (c : Val → M Bool) (e : Val → M Val) : List Val → M (List Val)
  | [] => .ok []
  | x :: xs => c x >>= fun b =>
    if b then e x >>= fun y => compM c e xs >>= fun ys => .ok (y :: ys) else compM c e xs

/-- the first `e x` with `c x` -/
def firstM (c : Val → M Bool) (e : Val → M Val) : List Val → M (Option Val)
  | [] => .ok Option.none
  | x :: xs => c x >>= fun b => if b then e x >>= fun y => .ok (some y) else firstM c e xs

def maxInts : List Val → Option Int
  | [] => Option.none
  | .int n :: rest => match maxInts rest with
    | some m => some (if m ≤ n then n else m)
    | Option.none => if rest.isEmpty then some n else Option.none
  | _ => Option.none

/-- the first element whose key is the largest (`max(xs, key=…)`); keys are ints or timedeltas of one kind -/
def firstMax : List (Val × Val) → Option Val
  | [] => Option.none
  | (x, k) :: rest =>
    match rest, firstMax rest with
    | [], _ => match numOf k with | some _ => some x | Option.none => Option.none
    | (_, k') :: _, some y =>
      if sameNumKind k k' then
        -- `y` is the first maximal element of the rest; `x` wins ties because it comes first
        match numOf k, (rest.find? (·.1 == y)).bind (fun p => numOf p.2) with
        | some a, some b => if b ≤ a then some x else some y
        | _, _ => Option.none
      else Option.none
    | _, Option.none => Option.none

/-- `x[k].append(v)` on a map that creates missing entries (a `defaultdict(list)`): an association list in insertion order -/
def appendAtVal (m k v : Val) : M Val :=
  match m with
  | .list sp => match sp.toList? with
    | some es =>
      let rec go : List Val → Option (List Val)
        | [] => some [.tup (.cons k (.cons (.list (.cons v .nil)) .nil))]
        | .tup (.cons k' (.cons (.list l) .nil)) :: rest =>
          if k' == k then
            match l.toList? with
            | some xs => some (.tup (.cons k' (.cons (.list (Val.ofList (xs ++ [v]))) .nil)) :: rest)
            | Option.none => Option.none
          else (go rest).map (.tup (.cons k' (.cons (.list l) .nil)) :: ·)
        | _ => Option.none
      match go es with
      | some es' => .ok (.list (Val.ofList es'))
      | Option.none => unsupported "map entry"
    | Option.none => unsupported "map"
  | _ => unsupported "map"

/-- `isinstance(v, int)` (a `bool` is an `int`) -/
def isIntB : Val → Bool
  | .int _ => true
  | .bool _ => true
  | _ => false

/-- `isinstance(v, timedelta)` -/
def isTdB : Val → Bool
  | .td _ => true
  | _ => false

def evalExpr (ext : Ext) (env : Env) : Expr → M Val
  | .lit v => .ok v
  | .var x => lookup env x
  | .attr e name => evalExpr ext env e >>= fun v => attrVal v name
  | .index e i => evalExpr ext env e >>= fun v => evalExpr ext env i >>= fun w => indexVal v w
  | .slice e lo hi => evalExpr ext env e >>= fun v => evalExpr ext env lo >>= fun a => evalExpr ext env hi >>= fun b =>
    sliceVal v a b
  | .bin op a b => evalExpr ext env a >>= fun va => evalExpr ext env b >>= fun vb => evalBin op va vb
  | .cmp op a b => evalExpr ext env a >>= fun va => evalExpr ext env b >>= fun vb => evalCmp op va vb
  | .not a => evalExpr ext env a >>= fun v => truth v >>= fun t => .ok (.bool (!t))
  | .and a b => evalExpr ext env a >>= fun v => truth v >>= fun t => if t then evalExpr ext env b else .ok v
  | .or a b => evalExpr ext env a >>= fun v => truth v >>= fun t => if t then .ok v else evalExpr ext env b
  | .isNone a => evalExpr ext env a >>= fun v => .ok (.bool (v == .none))
  | .len a => evalExpr ext env a >>= fun v => lenVal v
  | .range lo hi => evalExpr ext env lo >>= fun a => evalExpr ext env hi >>= fun b =>
    match a, b with
    | .int a, .int b => .ok (.list (Val.ofList ((List.range (b - a).toNat).map fun (k : Nat) => .int (a + (k : Int)))))
    | _, _ => unsupported "range bounds"
  | .enumerate a => evalExpr ext env a >>= fun v =>
    match seqOf v with
    | some l => .ok (.list (Val.ofList (l.zipIdx.map fun p => .tup (.cons (.int p.2) (.cons p.1 .nil)))))
    | none => unsupported "enumerate"
  | .ifExp c a b => evalExpr ext env c >>= fun v => truth v >>= fun t => if t then evalExpr ext env a else evalExpr ext env b
  | .enil => .ok .nil
  | .econs hd tl => evalExpr ext env hd >>= fun h => evalExpr ext env tl >>= fun t => .ok (.cons h t)
  | .mkList sp => evalExpr ext env sp >>= fun v => .ok (.list v)
  | .mkTup sp => evalExpr ext env sp >>= fun v => .ok (.tup v)
  | .fnilE => .ok .fnil
  | .fcons name e rest => evalExpr ext env e >>= fun v => evalExpr ext env rest >>= fun r => .ok (.field name v r)
  | .ctor cls fields => evalExpr ext env fields >>= fun fs => .ok (.obj cls fs)
  | .call f args => evalExpr ext env args >>= fun vs =>
    match vs.toList? with
    | some l => ext f l
    | none => unsupported "argument spine"
  | .toTup a => evalExpr ext env a >>= fun v =>
    match seqOf v with
    | some l => .ok (.tup (Val.ofList l))
    | none => unsupported "tuple()"
  | .isInt a => evalExpr ext env a >>= fun v => .ok (.bool (isIntB v))
  | .isTd a => evalExpr ext env a >>= fun v => .ok (.bool (isTdB v))
  | .anyGen v it c e => evalExpr ext env it >>= fun l =>
    match seqOf l with
    | some xs => anyM (fun x => evalExpr ext (setVar env v x) c >>= truth >>= fun b =>
        if b then evalExpr ext (setVar env v x) e >>= truth else .ok false) xs >>= fun b => .ok (.bool b)
    | none => unsupported "iteration"
  | .allGen v it c e => evalExpr ext env it >>= fun l =>
    match seqOf l with
    | some xs => allM (fun x => evalExpr ext (setVar env v x) c >>= truth >>= fun b =>
        if b then evalExpr ext (setVar env v x) e >>= truth else .ok true) xs >>= fun b => .ok (.bool b)
    | none => unsupported "iteration"
  | .nextGen v it c e => evalExpr ext env it >>= fun l =>
    match seqOf l with
    | some xs => firstM (fun x => evalExpr ext (setVar env v x) c >>= truth) (fun x => evalExpr ext (setVar env v x) e) xs >>= fun r =>
      match r with
      | some y => .ok y
      | none => .error (.internal "StopIteration")
    | none => unsupported "iteration"
  | .maxGen v it c e => evalExpr ext env it >>= fun l =>
    match seqOf l with
    | some xs => compM (fun x => evalExpr ext (setVar env v x) c >>= truth) (fun x => evalExpr ext (setVar env v x) e) xs >>= fun ys =>
      match ys with
      | [] => .error .valueError
      | _ => match maxInts ys with
        | some m => .ok (.int m)
        | none => unsupported "max of non-ints"
    | none => unsupported "iteration"
  | .contains a b => evalExpr ext env a >>= fun x => evalExpr ext env b >>= fun c =>
    match c with
    | .dict sp => match dictEntries sp with
      | some l => .ok (.bool (l.any (·.1 == x)))
      | none => unsupported "dict"
    | _ => match seqOf c with
      | some l => .ok (.bool (l.any (· == x)))
      | none => unsupported "in"
  | .maxKey v it key => evalExpr ext env it >>= fun l =>
    match seqOf l with
    | some [] => .error .valueError
    | some xs => compM (fun _ => .ok true) (fun x => evalExpr ext (setVar env v x) key) xs >>= fun ks =>
      match firstMax (xs.zip ks) with
      | some y => .ok y
      | none => unsupported "max key"
    | none => unsupported "iteration"
  | .comp v it c e => evalExpr ext env it >>= fun l =>
    match seqOf l with
    | some xs => compM (fun x => evalExpr ext (setVar env v x) c >>= truth) (fun x => evalExpr ext (setVar env v x) e) xs >>= fun ys =>
      .ok (.list (Val.ofList ys))
    | none => unsupported "iteration"
  | .items a => evalExpr ext env a >>= fun d =>
    match d with
    | .dict sp => match dictEntries sp with
      | some _ => .ok (.list sp)
      | none => unsupported "dict"
    | _ => unsupported "items of a non-dict"

/-- `l.append(v)` -/
def appendVal (l v : Val) : M Val :=
  match l with
  | .list sp => match sp.toList? with
    | some xs => .ok (.list (Val.ofList (xs ++ [v])))
    | none => unsupported "append"
  | _ => unsupported "append"

/-- `l[k] = v` on a list -/
def setAt (l k v : Val) : M Val :=
  match l, k with
  | .dict sp, k => match dictEntries sp with
    | some es => .ok (.dict (encEntries (dictSet es k v)))
    | Option.none => unsupported "dict"
  | .list sp, .int k => match sp.toList? with
    | some xs => match normIdx k xs.length with
      | some j => .ok (.list (Val.ofList (xs.set j v)))
      | none => .error (.internal "IndexError")
    | none => unsupported "item assignment"
  | _, _ => unsupported "item assignment"

/-- `m.setdefault(k, dict())[k2] = v` on a dict of dicts: the inner dict is created at the end if `k` is new; an existing key keeps
    its position (outer and inner) -/
def setDefaultAt (m k k2 v : Val) : M Val :=
  match m with
  | .dict sp => match dictEntries sp with
    | some es =>
      match es.find? (·.1 == k) with
      | some kv => match kv.2 with
        | .dict isp => match dictEntries isp with
          | some ies => .ok (.dict (encEntries (dictSet es k (.dict (encEntries (dictSet ies k2 v))))))
          | Option.none => unsupported "dict"
        | _ => unsupported "setdefault on a non-dict entry"
      | Option.none => .ok (.dict (encEntries (es ++ [(k, .dict (encEntries [(k2, v)]))])))
    | Option.none => unsupported "dict"
  | _ => unsupported "setdefault"

/-- how a statement ends -/
inductive Res where
  | norm (env : Env)
  | brk (env : Env)
  | cont (env : Env)
  | ret (v : Val)
  | exc (e : PyErr) (env : Env)
  | fuel
  deriving Repr, Inhabited

def bindAll (env : Env) : List String → List Val → Option Env
  | [], [] => some env
  | x :: xs, v :: vs => bindAll (setVar env x v) xs vs
  | _, _ => none

/-- run a statement. Recursion is on the fuel alone (one unit per nesting step and per loop iteration); a statement that
    terminates does so with the same result for every larger fuel (`Proofs/ImpMono.lean`). -/
def exec (ext : Ext) : Nat → Stmt → Env → Res
  | 0, _, _ => .fuel
  | n + 1, s, env =>
    match s with
    | .skip => .norm env
    | .seq a b =>
      match exec ext n a env with
      | .norm env' => exec ext n b env'
      | r => r
    | .assign x e =>
      match evalExpr ext env e with
      | .ok v => .norm (setVar env x v)
      | .error err => .exc err env
    | .unpack xs e =>
      match evalExpr ext env e with
      | .ok v =>
        match seqOf v with
        | some l => match bindAll env xs l with
          | some env' => .norm env'
          | none => .exc .valueError env          -- "not enough / too many values to unpack"
        | none => .exc (.internal "unsupported: unpacking a non-sequence") env
      | .error err => .exc err env
    | .setIdx x i e =>
      match evalExpr ext env e >>= fun v => lookup env x >>= fun l => evalExpr ext env i >>= fun k => setAt l k v with
      | .ok nl => .norm (setVar env x nl)
      | .error err => .exc err env
    | .append x e =>
      match lookup env x >>= fun l => evalExpr ext env e >>= fun v => appendVal l v with
      | .ok nl => .norm (setVar env x nl)
      | .error err => .exc err env
    | .appendAt x k e =>
      match lookup env x >>= fun m => evalExpr ext env k >>= fun kv => evalExpr ext env e >>= fun v => appendAtVal m kv v with
      | .ok nm => .norm (setVar env x nm)
      | .error err => .exc err env
    | .ite c a b =>
      match evalExpr ext env c >>= truth with
      | .ok true => exec ext n a env
      | .ok false => exec ext n b env
      | .error err => .exc err env
    | .while c b =>
      match evalExpr ext env c >>= truth with
      | .ok true =>
        match exec ext n b env with
        | .norm env' => exec ext n (.while c b) env'
        | .cont env' => exec ext n (.while c b) env'
        | .brk env' => .norm env'
        | r => r
      | .ok false => .norm env
      | .error err => .exc err env
    | .forIn v e b orelse =>
      match evalExpr ext env e with
      | .ok w => match w with
        | .list sp => exec ext n (.forVals v sp b orelse) env
        | .tup sp => exec ext n (.forVals v sp b orelse) env
        | _ => .exc (.internal "unsupported: iteration") env
      | .error err => .exc err env
    | .forVals v items b orelse =>
      match items with
      | .cons x rest =>
        match exec ext n b (setVar env v x) with
        | .norm env' => exec ext n (.forVals v rest b orelse) env'
        | .cont env' => exec ext n (.forVals v rest b orelse) env'
        | .brk env' => .norm env'
        | r => r
      | _ => exec ext n orelse env
    | .brk => .brk env
    | .cont => .cont env
    | .ret e =>
      match evalExpr ext env e with
      | .ok v => .ret v
      | .error err => .exc err env
    | .raise err => .exc err env
    | .tryExcept b kind h =>
      match exec ext n b env with
      | .exc err env' => if err = kind then exec ext n h env' else .exc err env'
      | r => r
    | .warn e =>
      match lookup env "$log" >>= fun l => evalExpr ext env e >>= fun v => appendVal l v with
      | .ok nl => .norm (setVar env "$log" nl)
      | .error err => .exc err env
    | .setDefaultIdx x k k2 e =>
      match evalExpr ext env e >>= fun v => lookup env x >>= fun m => evalExpr ext env k >>= fun kv => evalExpr ext env k2 >>= fun kv2 =>
            setDefaultAt m kv kv2 v with
      | .ok nm => .norm (setVar env x nm)
      | .error err => .exc err env

/-- a function body run to completion: its return value (`None` when it falls off the end) or the exception it raises -/
def run (ext : Ext) (fuel : Nat) (body : Stmt) (env : Env) : Option (M Val) :=
  match exec ext fuel body env with
  | .ret v => some (.ok v)
  | .norm _ => some (.ok .none)
  | .exc e _ => some (.error e)
  | .brk _ => some (.error (.internal "break outside loop"))
  | .cont _ => some (.error (.internal "continue outside loop"))
  | .fuel => none

end Chartparse.PyImp
