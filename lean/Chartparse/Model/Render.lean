import Chartparse.Model.Chart
/-! Model of the hand-written `__str__` family: `Event.__str__` (event.py:37-48), `str(timedelta)`, the per-class
    suffixes (sync.py, instrument.py, globalevents.py) and `InstrumentTrack.__str__`. `BPMEvent.__str__` prints a float
    with `repr` and is *not* modelled. Core Lean only. -/
namespace Chartparse.Render
open Chartparse Chartparse.Inst

def natStr (n : Nat) : Str := (Nat.repr n).toList.map Char.toNat

/-- `f"{n:0{w}}"` for a non-negative integer -/
def pad0 (w n : Nat) : Str := List.replicate (w - (natStr n).length) 48 ++ natStr n

/-- `str(timedelta(microseconds=us))` for `us ≥ 0`: `[D day[s], ]H:MM:SS[.ffffff]` -/
def tdStr (us : Nat) : Str :=
  let days := us / 86400000000
  let rem := us % 86400000000
  let secs := rem / 1000000
  let micro := rem % 1000000
  (if days = 0 then [] else natStr days ++ (if days = 1 then cp " day, " else cp " days, ")) ++
  natStr (secs / 3600) ++ [58] ++ pad0 2 (secs % 3600 / 60) ++ [58] ++ pad0 2 (secs % 60) ++
  (if micro = 0 then [] else [46] ++ pad0 6 micro)

/-- `Event.__str__`: integral timestamps get `.000000` appended so that everything lines up -/
def base (name : String) (tick : Nat) (ts : Int) : Str :=
  cp name ++ cp "(t@" ++ pad0 7 tick ++ cp "): " ++ tdStr ts.toNat ++
  (if ts.toNat % 1000000 = 0 then cp ".000000" else [])

def optStr : Option Nat → Str
  | some n => natStr n
  | none => cp "None"

def sustainStr : Sustain → Str
  | .ticks n => natStr n
  | .tuple l => [40] ++ (cp ", ").intercalate (l.map optStr) ++ [41]

/-- `str(Note member)`: `Note.<canonical name>` from the regenerated table -/
def noteStr (lanes : List Bool) : M Str :=
  match Gen.noteTable.find? (·.1 == lanes) with
  | some e => .ok (cp "Note." ++ cp e.2.1)
  | none => .error .valueError                       -- `Note(tuple)` would have failed at construction

def hopoValue : Hopo → Nat | .strum => 0 | .hopo => 1 | .tap => 2

/-- `hopo_state_to_string[self.hopo_state]`: a dict subscript that can raise KeyError -/
def hopoLetter (h : Hopo) : M Str :=
  match Gen.hopoStates.find? (·.2 == hopoValue h) with
  | some e => if e.1 == "TAP" then .ok (cp "T") else if e.1 == "HOPO" then .ok (cp "H") else if e.1 == "STRUM" then .ok (cp "S")
              else .error (.internal "KeyError")
  | none => .error (.internal "KeyError")

def noteEvStr (n : NoteEv) : M Str :=
  noteStr n.lanes >>= fun ns => hopoLetter n.hopo >>= fun hl =>
    .ok (base "NoteEvent" n.tick n.ts ++ cp ": sustain=" ++ sustainStr n.sustain ++ cp ": " ++ ns ++
         (if n.sp.isSome then [42] else []) ++ cp " [hopo_state=" ++ hl ++ [93])

def valStr (name : String) (e : ValEv) : Str := base name e.tick e.ts ++ cp ": \"" ++ e.value ++ [34]
def spStr (e : SpEv) : Str := base "StarPowerEvent" e.tick e.ts ++ cp ": sustain=" ++ natStr e.len
def tsStr (e : TsEv) : Str := base "TimeSignatureEvent" e.tick e.ts ++ cp ": " ++ natStr e.upper ++ [47] ++ natStr e.lower
def anchorStr (e : Nat × Nat) : Str := base "AnchorEvent" e.1 (e.2 : Int)

def trackStr (t : RoutedTrack) : Str :=
  cp "InstrumentTrack(instrument: Instrument." ++ cp (Gen.instruments.getD t.label.1 ("?", [])).1 ++
  cp ", difficulty: Difficulty." ++ cp (Gen.difficulties.getD t.label.2 ("?", [])).1 ++
  cp ", len(note_events): " ++ natStr t.track.notes.length ++ cp ", len(star_power_events): " ++ natStr t.track.sps.length ++ [41]

def mapM' {α} (f : α → M Str) : List α → M (List Str)
  | [] => .ok []
  | a :: as => f a >>= fun s => mapM' f as >>= fun r => .ok (s :: r)

/-- every modelled rendering of a chart, in a fixed order (the harness renders the real objects in the same order) -/
def renderAll (c : Chart) (tracks : List RoutedTrack) : M (List Str) :=
  mapM' (fun t => mapM' noteEvStr t.track.notes >>= fun ns =>
      .ok ((cp ";").intercalate ([trackStr t] ++ ns ++ t.track.sps.map spStr ++ t.track.tes.map (valStr "TrackEvent")))) tracks >>= fun tr =>
    .ok (c.sync.tss.map tsStr ++ c.sync.anchors.map anchorStr ++ c.events.texts.map (valStr "TextEvent") ++
         c.events.sections.map (valStr "SectionEvent") ++ c.events.lyrics.map (valStr "LyricEvent") ++ tr)

end Chartparse.Render
