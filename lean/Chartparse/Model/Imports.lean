/-! CPython import semantics on a flat package whose `__init__` is empty, with partially initialised
    modules (`sys.modules` entry present, body still running). Core Lean only; module and name
    identifiers are `Nat`s (a side table in `Gen/Imports.lean` gives the strings). -/
namespace Chartparse.Imp

inductive Stmt where
  | imp (m : Nat)                               -- `import pkg.m`
  | fromImp (m : Nat) (names : List (Nat × Nat)) -- `from pkg.m import a as b, …`  (name, bound as)
  | defn (name : Nat) (ordinal : Nat)           -- binds a name (def / class / assignment)
  | useAttr (m : Nat) (name : Nat)              -- evaluates `pkg.m.name` while the body runs
  deriving Repr, DecidableEq

abbrev Graph := List (List Stmt)        -- module id = index

/-- an object is identified by (defining module, name, ordinal of the defining statement) -/
abbrev Obj := Nat × Nat × Nat
abbrev NS := List (Nat × Obj)           -- name ↦ object, latest first

inductive Status where
  | absent | partialInit (ns : NS) | complete (ns : NS)
  deriving Repr, DecidableEq

abbrev State := List Status             -- indexed by module id

def lookup (ns : NS) (n : Nat) : Option Obj := (ns.find? (·.1 == n)).map (·.2)
def setSt (s : State) (m : Nat) (x : Status) : State := s.set m x
def nsOf (s : State) (m : Nat) : Option NS :=
  match s.getD m .absent with | .absent => none | .partialInit ns => some ns | .complete ns => some ns
def completeNs (s : State) (m : Nat) : Option NS :=
  match s.getD m .absent with | .complete ns => some ns | _ => none
def bind (s : State) (m : Nat) (n : Nat) (o : Obj) : State :=
  match s.getD m .absent with
  | .partialInit ns => setSt s m (.partialInit ((n, o) :: ns))
  | _ => s

mutual
/-- execute the body of module `m` (already registered as partial) -/
def runBody (g : Graph) : Nat → State → Nat → List Stmt → Option State
  | 0, _, _, _ => none
  | _, s, _, [] => some s
  | fuel+1, s, m, st :: rest =>
    match st with
    | .defn n i => runBody g fuel (bind s m n (m, n, i)) m rest
    | .imp m' =>
      match ensure g fuel s m' with
      | none => none
      | some s' => runBody g fuel s' m rest
    | .fromImp m' ns =>
      match ensure g fuel s m' with
      | none => none
      | some s' =>
        match nsOf s' m' with
        | none => none
        | some ns' =>
          match ns.mapM (fun n => (lookup ns' n.1).map (fun o => (n.2, o))) with
          | none => none                               -- ImportError: cannot import name (partially initialised)
          | some bs => runBody g fuel (bs.foldl (fun acc b => bind acc m b.1 b.2) s') m rest
    | .useAttr m' n =>
      -- the submodule becomes an attribute of the package only once its import has completed
      match completeNs s m' with
      | none => none                                   -- AttributeError: partially initialized module
      | some ns' => match lookup ns' n with
        | none => none
        | some _ => runBody g fuel s m rest
/-- make sure module `m` is in sys.modules (loading it if absent) -/
def ensure (g : Graph) : Nat → State → Nat → Option State
  | 0, _, _ => none
  | fuel+1, s, m =>
    match s.getD m .absent with
    | .absent =>
      match runBody g fuel (setSt s m (.partialInit [])) m (g.getD m []) with
      | none => none
      | some s' => match s'.getD m .absent with
          | .partialInit ns => some (setSt s' m (.complete ns))
          | _ => none
    | _ => some s
end

def fuel0 : Nat := 4000
/-- `import pkg.m` typed at the top level of a client program (`none` = it raised) -/
def importTop (g : Graph) (s : State) (m : Nat) : Option State := ensure g fuel0 s m

def noPartial (s : State) : Bool := s.all fun x => match x with | .partialInit _ => false | _ => true

/-- every visible binding in every loaded module is the *current* binding of that name in its defining
    module (no stale overload stub or earlier rebinding captured from a partially initialised module) -/
def canonical (s : State) : Bool :=
  s.all fun st => match st with
    | .complete ns => ns.all fun kv =>
        if lookup ns kv.1 == some kv.2 then
          match completeNs s kv.2.1 with
          | some ns' => lookup ns' kv.2.2.1 == some kv.2
          | none => false
        else true
    | _ => true

def good (s : State) : Bool := noPartial s && canonical s

def initState (g : Graph) : State := List.replicate g.length .absent

/-- closure of the initial state under importing any module — only a *witness*; soundness re-checks it -/
def closeUnder (g : Graph) : Nat → List State → List State → List State
  | 0, seen, _ => seen
  | _, seen, [] => seen
  | fuel+1, seen, s :: todo =>
    let succs := ((List.range g.length).filterMap (importTop g s)).filter
      (fun s' => !(seen.contains s') && !(todo.contains s') && s' != s)
    closeUnder g fuel (s :: seen) (todo ++ succs.eraseDups)

def reach (g : Graph) : List State := closeUnder g 500 [] [initState g]

/-- in all reachable states, a module that is loaded has the same namespace -/
def sameNamespaces (R : List State) (n : Nat) : Bool :=
  R.all fun s => R.all fun s' => (List.range n).all fun m =>
    match completeNs s m, completeNs s' m with
    | some a, some b => a == b
    | _, _ => true

end Chartparse.Imp
