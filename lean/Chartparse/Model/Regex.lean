import Chartparse.Model.ReSyntax
import Chartparse.Gen.Unicode
/-! Backtracking matcher with Python `re` priority semantics for the sre subset of `ReSyntax`.
    Continuation-passing with `Option` results: "the first match in backtracking priority order" is a
    plain structurally recursive function. Core Lean only. -/
namespace Chartparse

def inRanges (rs : List (Nat × Nat)) (n : Nat) : Bool := rs.any fun r => r.1 ≤ n && n ≤ r.2

def CSet.test : CSet → Nat → Bool
  | .lit a, c => c == a
  | .notLit a, c => c != a
  | .any, c => c != 10
  | .space, c => inRanges Gen.spaceRanges c
  | .digit, c => inRanges Gen.digitRanges c
  | .range lo hi, c => lo ≤ c && c ≤ hi

def starExec (greedy : Bool) (s : CSet) (k : Str → Option α) : Str → Option α
  | [] => k []
  | c :: t =>
    if s.test c then
      if greedy then (starExec greedy s k t).orElse fun _ => k (c :: t)
      else (k (c :: t)).orElse fun _ => starExec greedy s k t
    else k (c :: t)

def Re.exec : Re → (Str → Caps → Option α) → Str → Caps → Option α
  | .eps, k, r, cs => k r cs
  | .eol, k, r, cs => if r = [] ∨ r = [10] then k r cs else none
  | .chr s, k, r, cs => match r with
      | c :: t => if s.test c then k t cs else none
      | [] => none
  | .cat a b', k, r, cs => a.exec (fun r1 cs1 => b'.exec k r1 cs1) r cs
  | .star g s, k, r, cs => starExec g s (fun r1 => k r1 cs) r
  | .opt g a, k, r, cs =>
      if g then (a.exec k r cs).orElse fun _ => k r cs
      else (k r cs).orElse fun _ => a.exec k r cs
  | .group i a, k, r, cs =>
      a.exec (fun r1 cs1 => k r1 ((i, r.take (r.length - r1.length)) :: cs1)) r cs

/-- `prog.match(line)`: `none`, or the captures of the first match in priority order -/
def Re.matchGroups (re : Re) (line : Str) : Option Caps :=
  re.exec (fun _ cs => some cs) line []

/-- `m.group(i)`; `none` for a group that did not participate -/
def grp (cs : Caps) (i : Nat) : Option Str := (cs.find? (·.1 == i)).map (·.2)

/-- value of one `\d` character: its offset in its ten-aligned block -/
def digitVal (c : Nat) : Nat :=
  match Gen.digitRanges.find? (fun r => r.1 ≤ c && c ≤ r.2) with
  | some r => (c - r.1) % 10
  | none => 0

/-- `int()` of a `\d+` capture -/
def intOf (ds : Str) : Nat := ds.foldl (fun acc c => acc * 10 + digitVal c) 0

end Chartparse
