import Chartparse.Model.Rate
import Chartparse.Model.Render
import Chartparse.Gen.Imports
import Chartparse.Model.Objects
import Chartparse.Gen.Classes
import Chartparse.Gen.Leaf
import Chartparse.Gen.Imp
/-! Line-protocol driver: one request per line on stdin, one canonical reply per line on stdout.
    Imports only `Model/` and `Gen/` (no Mathlib), so it links as a native executable. -/
open Chartparse Chartparse.F64 Chartparse.Tempo Chartparse.Inst Chartparse.Meta Chartparse.Rate

def parseCps (s : String) : List Nat :=
  if s == "-" then [] else (s.splitOn ",").map String.toNat!
def showCps (l : List Nat) : String := if l.isEmpty then "-" else ",".intercalate (l.map toString)
def showRat (r : Rat) : String := s!"{r.num}/{r.den}"
def showOptNat (o : Option Nat) : String := match o with | some n => toString n | none => "~"
def parseInt (s : String) : Int := s.toInt!
def parseRat (s : String) : Rat :=
  match s.splitOn "/" with
  | [a, b] => (a.toInt! : Rat) / (b.toNat! : Rat)
  | _ => (s.toInt! : Rat)

def showErr : PyErr → String
  | .valueError => "E ValueError" | .regexNotMatch => "E RegexNotMatchError"
  | .missingRequiredField => "E MissingRequiredField" | .internal w => s!"E internal:{w}"

def showField : FieldVal → String
  | .int n => s!"i{n}" | .str s => s!"s{showCps s}" | .p2 s => s!"p{showCps s}" | .none => "~"
def showSus : Sustain → String
  | .ticks n => s!"S{n}" | .tuple l => "T" ++ ":".intercalate (l.map showOptNat)
def showHopo : Hopo → String | .strum => "0" | .hopo => "1" | .tap => "2"
def showLanes (l : List Bool) : String := String.ofList (l.map fun b => if b then '1' else '0')
def showVal (e : ValEv) : String := s!"{e.tick} {e.ts} {e.idx} {showCps e.value}"
def sec (tag : String) (items : List String) : String := tag ++ " " ++ ";".intercalate items

def sortTracks (ts : List RoutedTrack) : List RoutedTrack :=
  (ts.toArray.qsort fun a b => a.key.1 < b.key.1 || (a.key.1 == b.key.1 && a.key.2 < b.key.2)).toList

def dumpTrack (t : RoutedTrack) : List String :=
  [s!"T {t.key.1} {t.key.2} {t.label.1} {t.label.2}",
   sec "N" (t.track.notes.map fun n =>
     s!"{n.tick} {n.ts} {n.endTs} {n.idx} {showLanes n.lanes} {showSus n.sustain} {showHopo n.hopo} {showOptNat n.sp}"),
   sec "SP" (t.track.sps.map fun s => s!"{s.tick} {s.len} {s.ts} {s.idx}"),
   sec "TE" (t.track.tes.map showVal),
   "L " ++ (match lastNoteEnd t.track.notes with | some x => toString x | none => "~")]

def dumpChart (c : Chart) : String :=
  "|".intercalate <|
    ["OK", "META " ++ " ".intercalate (c.metad.map showField),
     sec "B" (c.sync.bpms.map fun e => s!"{e.tick} {showRat e.bpm} {e.ts}"),
     sec "TS" (c.sync.tss.map fun e => s!"{e.tick} {e.upper} {e.lower} {e.ts} {e.idx}"),
     sec "A" (c.sync.anchors.map fun e => s!"{e.1} {e.2}"),
     sec "TX" (c.events.texts.map showVal), sec "SE" (c.events.sections.map showVal),
     sec "LY" (c.events.lyrics.map showVal)] ++
    ((sortTracks c.tracks).map dumpTrack).flatten ++
    [s!"W {c.unparsable}", sec "U" (c.unhandled.map showCps)]


/-! ### the embedded Python subset: leaves from /repo and free-standing expressions -/
open Chartparse.Py in
def showPy : M Val → String
  | .ok (.int n) => s!"int {n}" | .ok (.flt x) => s!"flt {showRat x}" | .ok (.bool b) => s!"bool {b}"
  | .ok (.td us) => s!"td {us}" | .ok .none => "none" | .ok (.enum n) => s!"enum {n}" | .ok (.obj _) => "obj" | .ok (.ints _) => "ints"
  | .ok (.flts _) => "flts" | .ok (.tds _) => "tds"
  | .ok (.pair a b) => s!"pair ({showPy (.ok a)}) ({showPy (.ok b)})"
  | .error e => showErr e

open Chartparse.Py in
def parsePyVal (s : String) : Val :=
  match s.splitOn ":" with
  | ["i", n] => .int n.toInt! | ["f", x] => .flt (parseRat x) | ["t", n] => .td n.toInt!
  | ["b", v] => .bool (v == "1") | ["o", bits] => .obj (bits.toList.map (· == '1'))
  | ["l", xs] => .ints (if xs == "-" then [] else (xs.splitOn ";").map String.toInt!)
  | ["lf", xs] => .flts (if xs == "-" then [] else (xs.splitOn ";").map parseRat)
  | ["lt", xs] => .tds (if xs == "-" then [] else (xs.splitOn ";").map String.toInt!) | _ => .none

/-- prefix-notation expression: `int n` | `var x` | `bin op a b` | `cmp op a b` | `round a` | `roundN n a` | `intOf a` | `cast a` |
    `abs a` | `tsec a` | `tdus a`; returns the expression and the unread tokens -/
partial def parsePyExpr : List String → Option (Chartparse.Py.Expr × List String)
  | "int" :: n :: r => some (.int n.toInt!, r)
  | "var" :: x :: r => some (.var x, r)
  | "bin" :: op :: r =>
    let o : Option Chartparse.Py.BinOp := match op with | "add" => some .add | "sub" => some .sub | "mul" => some .mul | "truediv" => some .truediv | "pow" => some .pow | _ => none
    match o, parsePyExpr r with
    | some o, some (a, r1) => match parsePyExpr r1 with | some (b, r2) => some (.bin o a b, r2) | none => none
    | _, _ => none
  | "cmp" :: op :: r =>
    let o : Option Chartparse.Py.CmpOp := match op with | "lt" => some .lt | "le" => some .le | "gt" => some .gt | "ge" => some .ge | "eq" => some .eq | "ne" => some .ne | _ => none
    match o, parsePyExpr r with
    | some o, some (a, r1) => match parsePyExpr r1 with | some (b, r2) => some (.cmp o a b, r2) | none => none
    | _, _ => none
  | "round" :: r => (parsePyExpr r).map fun (a, r1) => (.round a, r1)
  | "roundN" :: n :: r => (parsePyExpr r).map fun (a, r1) => (.roundN a n.toNat!, r1)
  | "intOf" :: r => (parsePyExpr r).map fun (a, r1) => (.intOf a, r1)
  | "cast" :: r => (parsePyExpr r).map fun (a, r1) => (.cast a, r1)
  | "abs" :: r => (parsePyExpr r).map fun (a, r1) => (.abs a, r1)
  | "tsec" :: r => (parsePyExpr r).map fun (a, r1) => (.totalSeconds a, r1)
  | "tdus" :: r => (parsePyExpr r).map fun (a, r1) => (.tdMicros a, r1)
  | "tdsec" :: r => (parsePyExpr r).map fun (a, r1) => (.tdSeconds a, r1)
  | "isfloat" :: r => (parsePyExpr r).map fun (a, r1) => (.isFloat a, r1)
  | "istd" :: r => (parsePyExpr r).map fun (a, r1) => (.isTd a, r1)
  | "ifexp" :: r =>
    match parsePyExpr r with
    | some (c, r1) => match parsePyExpr r1 with
      | some (a, r2) => match parsePyExpr r2 with | some (b, r3) => some (.ifExp c a b, r3) | none => none
      | none => none
    | none => none
  | "pair" :: r =>
    match parsePyExpr r with
    | some (a, r1) => match parsePyExpr r1 with | some (b, r2) => some (.pair a b, r2) | none => none
    | none => none
  | _ => none

open Chartparse.Py Chartparse.Gen.Leaf in
def runLeaf (name : String) (args : List String) : String :=
  let v := args.map parsePyVal
  match name, v with
  | "secs", [t, b, r] => showPy (evalBody [("ticks", t), ("bpm", b), ("resolution", r)] secondsFromTicksAtBpm)
  | "notedur", [r, d] => showPy (evalBody [("resolution", r), ("note_duration.value", d)] noteDurationToTicks)
  | "bpm", [n] => showPy (valueOf [("data.raw_bpm", n)] bpmDecode "bpm")
  | "valid", [x] => showPy (evalBody [("self.bpm", x)] bpmValidate)
  | "nps", [s, e, c] => showPy (evalBody [("start_time", s), ("end_time", e), ("num_events_to_consider", c)] notesPerSecond)
  | "anchor", [us] => showPy (valueOf [("data.microseconds", us)] anchorTimestamp "timestamp")
  | "scan", [tick, start, ticks] => showPy (evalBody [("tick", tick), ("start_iteration_index", start), ("self[].tick", ticks)] indexOfProximalEvent)
  | "tickadd", [a, b] => showPy (evalBody [("a", a), ("b", b)] tickAdd)
  | "after", [tick, e] => showPy (evalBody [("tick", tick), ("self.end_tick", e)] tickIsAfterEvent)
  | "during", [tick, st, aft] => showPy (evalBody [("tick", tick), ("self.tick", st), ("self.tick_is_after_event(tick)", aft)] tickIsDuringEvent)
  | "hopo", [thr, tick, note, chord, tap, forced, prev, ptick, pnote] =>
    showPy (evalBody ([("tick", tick), ("is_tap", tap), ("is_forced", forced), ("note", note), ("note.is_chord()", chord),
        ("chartparse.tick.note_duration_to_ticks(resolution, NoteDuration.EIGHTH_TRIPLET)", thr), ("previous", prev)] ++
        (if prev == .none then [] else [("previous.tick", ptick), ("previous.note", pnote)])) computeHopoState)
  | "between", [a, b] => showPy (evalBody [("a", a), ("b", b)] tickBetween)
  | "timeadd", [ts, o] => showPy (evalBody [("ts", ts), ("other", o)] timeAdd)
  | "tsat", [res, tick, start, ticks, bpms, stamps] =>
    showPy (evalBodyC timestampAtTickCalls [("tick", tick), ("start_iteration_index", start), ("self.resolution", res),
      ("self.events[].tick", ticks), ("self.events[].bpm", bpms), ("self.events[].timestamp", stamps)] timestampAtTick)
  | "tslower", [l] => showPy (valueOf [("data.lower", l)] tsLower "lower_numeral")
  | "bpmstep", [res, t, pt, pb, pts, idx] =>
    showPy (valueOfC bpmStepCalls [("data.tick", t), ("prev_event.tick", pt), ("prev_event.bpm", pb), ("prev_event.timestamp", pts),
      ("resolution", res), ("prev_event._proximal_bpm_event_index", idx)] bpmStep "timestamp")
  | _, _ => "bad-leaf"

def parseWant (s : String) : Option (List (Nat × Nat)) :=
  if s == "~" then none
  else if s == "-" then some []
  else some ((s.splitOn ";").map fun p => match p.splitOn ":" with
    | [a, b] => (a.toNat!, b.toNat!)
    | _ => (999, 999))

def parseBound (s : String) : Bound :=
  if s == "~" then .omitted
  else if s.startsWith "t" then .tick (parseInt (s.drop 1).toString)
  else .time (parseInt (s.drop 1).toString)

def showDatum : Datum → String
  | .note t i s => s!"note {t} {i} {s}"
  | .sp t l => s!"sp {t} {l}"
  | .te t v => s!"te {t} {showCps v}"
  | .bpm t raw => s!"bpm {t} {showCps raw}"
  | .ts t u l => s!"ts {t} {u} {showOptNat l}"
  | .anchor t u => s!"anchor {t} {u}"
  | .ev k t v => s!"ev{k} {t} {showCps v}"

def reByName (name : String) : Option (Re × Nat) :=
  match name with
  | "note" => some (Gen.noteRe, Gen.noteGroups) | "sp" => some (Gen.spRe, Gen.spGroups)
  | "te" => some (Gen.teRe, Gen.teGroups) | "bpm" => some (Gen.bpmRe, Gen.bpmGroups)
  | "ts" => some (Gen.tsRe, Gen.tsGroups) | "anchor" => some (Gen.anchorRe, Gen.anchorGroups)
  | "text" => some (Gen.textRe, Gen.textGroups) | "section" => some (Gen.sectionRe, Gen.sectionGroups)
  | "lyric" => some (Gen.lyricRe, Gen.lyricGroups) | "header" => some (Gen.headerRe, Gen.headerGroups)
  | n => (Gen.fieldRes.find? (·.1 == n)).map fun kv => (kv.2, 1)

def parseMap (s : String) : List (Nat × Rat) :=
  if s == "-" then [] else (s.splitOn ",").map fun p => match p.splitOn ":" with
    | [a, b] => (a.toNat!, decodeBpm b.toNat!)
    | _ => (0, 0)

def showMap (evs : List BpmEv) : String := sec "B" (evs.map fun e => s!"{e.tick} {showRat e.bpm} {e.ts}")

def buildValid (res : Int) (raw : List (Nat × Rat)) : M (List BpmEv) :=
  if raw.all (fun tb => validBpm tb.2) then buildMap res raw else .error .valueError

/-! ### the imperative embedding (`Model/Imp.lean`): values in prefix notation, recorded external calls -/
namespace ImpIO
open Chartparse.PyImp

def pairUp : List Val → List (Val × Val)
  | k :: v :: rest => (k, v) :: pairUp rest
  | _ => []

mutual
partial def parseVal : List String → Option (Val × List String)
  | "I" :: n :: r => some (.int n.toInt!, r)
  | "B" :: b :: r => some (.bool (b == "1"), r)
  | "N" :: r => some (.none, r)
  | "T" :: n :: r => some (.td n.toInt!, r)
  | "S" :: c :: r => some (.str (parseCps c), r)
  | "L" :: n :: r => (parseVals n.toNat! r).map fun p => (.list (Val.ofList p.1), p.2)
  | "U" :: n :: r => (parseVals n.toNat! r).map fun p => (.tup (Val.ofList p.1), p.2)
  | "O" :: cls :: n :: r => (parseFields n.toNat! r).map fun p => (.obj cls p.1, p.2)
  | "D" :: n :: r => (parseVals (2 * n.toNat!) r).map fun p => (.dict (encEntries (pairUp p.1)), p.2)
  | _ => none
partial def parseVals : Nat → List String → Option (List Val × List String)
  | 0, r => some ([], r)
  | n + 1, r => match parseVal r with
    | some (v, r') => (parseVals n r').map fun p => (v :: p.1, p.2)
    | none => none
partial def parseFields : Nat → List String → Option (Val × List String)
  | 0, r => some (.fnil, r)
  | n + 1, name :: r => match parseVal r with
    | some (v, r') => (parseFields n r').map fun p => (.field name v p.1, p.2)
    | none => none
  | _, _ => none
end

partial def showVal : Val → String
  | .int n => s!"I {n}"
  | .bool b => if b then "B 1" else "B 0"
  | .none => "N"
  | .td n => s!"T {n}"
  | .str c => s!"S {showCps c}"
  | .list sp => match sp.toList? with
    | some l => s!"L {l.length}" ++ String.join (l.map fun v => " " ++ showVal v)
    | none => "?spine"
  | .tup sp => match sp.toList? with
    | some l => s!"U {l.length}" ++ String.join (l.map fun v => " " ++ showVal v)
    | none => "?spine"
  | .obj cls fs => s!"O {cls}" ++ showFields fs 0 ""
  | .dict sp => match dictEntries sp with
    | some l => s!"D {l.length}" ++ String.join (l.map fun kv => " " ++ showVal kv.1 ++ " " ++ showVal kv.2)
    | none => "?dict"
  | _ => "?"
where
  showFields : Val → Nat → String → String
    | .field name v rest, n, acc => showFields rest (n + 1) (acc ++ " " ++ name ++ " " ++ showVal v)
    | _, n, acc => s!" {n}" ++ acc

def parseErr (s : String) : PyErr :=
  if s == "ValueError" then .valueError else if s == "RegexNotMatchError" then .regexNotMatch
  else if s == "MissingRequiredField" then .missingRequiredField else .internal ((s.splitOn "internal:").getLast!)

/-- `n` recorded calls: `fname nargs args… (R val | E kind)` -/
partial def parseTable : Nat → List String → Option (List (String × List Val × M Val) × List String)
  | 0, r => some ([], r)
  | n + 1, f :: k :: r =>
    match parseVals k.toNat! r with
    | some (args, "R" :: r') => match parseVal r' with
      | some (v, r'') => (parseTable n r'').map fun p => ((f, args, .ok v) :: p.1, p.2)
      | none => none
    | some (args, "E" :: kind :: r') => (parseTable n r').map fun p => ((f, args, .error (parseErr kind)) :: p.1, p.2)
    | _ => none
  | _, _ => none

def run (name : String) (rest : List String) : String :=
  match Chartparse.Gen.Imp.byName name, rest with
  | some (params, locals, body), fuel :: np :: r =>
    match parseVals np.toNat! r with
    | some (args, nt :: r') =>
      match parseTable nt.toNat! r' with
      | some (table, _) =>
        let ext : Ext := fun f a => match table.find? (fun e => e.1 == f && e.2.1 == a) with
          | some e => e.2.2
          | none => unsupported ("no recorded call of " ++ f)
        match Chartparse.PyImp.run ext fuel.toNat! body (initEnv (params.zip args) locals) with
        | some (.ok v) => "R " ++ showVal v
        | some (.error e) => showErr e
        | none => "E fuel"
      | none => "bad-table"
    | _ => "bad-args"
  | _, _ => "bad-name"
end ImpIO

def handle (toks : List String) : String :=
  match toks with
  | ["chart", text, want] =>
    match parseChart (parseCps text) (parseWant want) with
    | .ok c => dumpChart c | .error e => showErr e
  | ["path", text, want] =>
    match parsePath (parseCps text) (parseWant want) with
    | .ok c => dumpChart c | .error e => showErr e
  | ["re", name, text] =>
    match reByName name with
    | none => "bad-name"
    | some (re, n) => match re.matchGroups (parseCps text) with
      | none => "none"
      | some cs => "some " ++ ";".intercalate ((List.range n).map fun i =>
          match grp cs (i + 1) with | some g => showCps g | none => "~")
  | ["line", kind, text] =>
    match decodeKind kind.toNat! (parseCps text) with
    | none => "none" | some d => showDatum d
  | ["cls", c] =>
    let n := c.toNat!
    s!"{(CSet.space.test n)} {(CSet.digit.test n)} {digitVal n} {isBreak n}"
  | ["int", text] => toString (intOf (parseCps text))
  | ["split", text] => ";".intercalate ((splitlines (parseCps text)).map showCps)
  | "leaf" :: name :: args => runLeaf name args
  | "imp" :: name :: rest => ImpIO.run name rest
  | "pyx" :: envs :: toks =>
    -- envs: `x=i:3,y=f:1/3` (or `-`); toks: a prefix-notation expression
    let env : Chartparse.Py.Env := if envs == "-" then [] else (envs.splitOn ",").filterMap fun kv =>
      match kv.splitOn "=" with | [k, v] => some (k, parsePyVal v) | _ => none
    match parsePyExpr toks with
    | some (e, []) => showPy (Chartparse.Py.evalExpr env e)
    | _ => "bad-expr"
  | ["fl", x] => showRat (fl (parseRat x))
  | ["rhe", x] => toString (rhe (parseRat x))
  | ["us", x] => toString (usOfSeconds (parseRat x))
  | ["round3", x] => showRat (round3 (parseRat x))
  | ["secs", t, b, r] => showRat (secsFromTicks t.toNat! (parseRat b) r.toNat!)
  | ["bpm", n] => s!"{showRat (decodeBpm n.toNat!)} {validBpm (decodeBpm n.toNat!)}"
  | ["bpmshipped", n] => s!"{showRat (decodeBpmShipped n.toNat!)} {validBpm (decodeBpmShipped n.toNat!)}"
  | ["thr", r] => toString (tripletThreshold (parseInt r))
  | ["map", r, m] =>
    match buildValid (parseInt r) (parseMap m) with
    | .ok evs => showMap evs | .error e => showErr e
  | ["tsat", r, m, tick, hint] =>
    match buildValid (parseInt r) (parseMap m) with
    | .error e => "MAP " ++ showErr e
    | .ok evs => match tsAt (parseInt r) evs (parseInt tick) hint.toNat! with
      | .ok (x, g) => s!"{x} {g}" | .error e => showErr e
  | ["nps", text, i, d, s, e] =>
    match parseChart (parseCps text) none with
    | .error err => "CHART " ++ showErr err
    | .ok c => match notesPerSecond c (i.toNat!, d.toNat!) (parseBound s) (parseBound e) with
      | .ok v => showRat v | .error err => showErr err
  | ["hopo", res, tick, lanes, tap, forced, ptick, planes] =>
    let toL (x : String) : List Bool := x.toList.map (· == '1')
    let prev : Option (Nat × List Bool) := if ptick == "~" then none else some (ptick.toNat!, toL planes)
    match hopoState (tripletThreshold (parseInt res)) tick.toNat! (toL lanes) (tap == "1") (forced == "1") prev with
    | .ok h => showHopo h | .error e => showErr e
  | ["spdata", phr, ticks] =>
    -- phrases t:l,t:l ; note ticks a,b,c : threaded cursor as in _build_note_events_from_data
    let ps : List Phrase := if phr == "-" then [] else (phr.splitOn ",").map fun p => match p.splitOn ":" with
      | [a, b] => ⟨a.toNat!, b.toNat!⟩ | _ => ⟨0, 0⟩
    let ts := if ticks == "-" then [] else (ticks.splitOn ",").map String.toNat!
    let rec goSp (l : List Nat) (cur : Nat) (acc : List String) : String :=
      match l with
      | [] => " ".intercalate acc.reverse
      | t :: r => match spData t ps cur with
        | .ok (d, c) => goSp r c (showOptNat d :: acc)
        | .error e => " ".intercalate (acc.reverse ++ [showErr e])
    goSp ts 0 []
  | ["strs", text] =>
    -- str() of every modelled event of the chart, in a fixed order, tracks sorted by key
    match parseChart (parseCps text) none with
    | .error e => "CHART " ++ showErr e
    | .ok c => match Chartparse.Render.renderAll c (sortTracks c.tracks) with
      | .ok l => "|".intercalate (l.map showCps)
      | .error e => showErr e
  | ["imports", order] =>
    -- per step: ok / fail; then whether the final state is good (no partial module, canonical bindings)
    let seq := if order == "-" then [] else (order.splitOn ",").map String.toNat!
    let rec go (s : Option Chartparse.Imp.State) (l : List Nat) (acc : List String) : List String × Option Chartparse.Imp.State :=
      match l, s with
      | [], _ => (acc.reverse, s)
      | _ :: ms, none => go none ms ("skip" :: acc)
      | m :: ms, some st => match Chartparse.Imp.importTop Gen.importGraph st m with
        | some st' => go (some st') ms ("ok" :: acc)
        | none => go none ms ("fail" :: acc)
    let r := go (some (Chartparse.Imp.initState Gen.importGraph)) seq []
    " ".intercalate r.1 ++ " | " ++ (match r.2 with
      | some st => s!"good={Chartparse.Imp.good st}"
      | none => "good=false")
  | ["obj", mp, ops] =>
    -- mp: i:d.d;i:d   ops: g<i> | n<i>.<d> | c | p   (comma separated)
    let tm : Chartparse.Obj.TrackMap := if mp == "-" then [] else (mp.splitOn ";").map fun e =>
      match e.splitOn ":" with
      | [i, ds] => (i.toNat!, if ds == "" then [] else (ds.splitOn ".").map String.toNat!)
      | _ => (0, [])
    let opl : List Chartparse.Obj.Op := if ops == "-" then [] else (ops.splitOn ",").map fun o =>
      if o.startsWith "g" then .getItem (o.drop 1).toString.toNat!
      else if o.startsWith "n" then match (o.drop 1).toString.splitOn "." with
        | [i, d] => .nps i.toNat! d.toNat!
        | _ => .pure
      else if o.startsWith "c" then .derived 0 0
      else .pure
    let showTm (t : Chartparse.Obj.TrackMap) : String :=
      ";".intercalate (t.map fun kv => s!"{kv.1}:" ++ ".".intercalate (kv.2.map toString))
    let showOut : Chartparse.Obj.Out → String
      | .keyError => "KeyError" | .valueError => "ValueError" | .found => "found"
      | .dict ds => "dict" ++ ".".intercalate (ds.map toString) | .unit => "unit"
    " ".intercalate ((Chartparse.Obj.outs Gen.trackMapAutoInserts ⟨tm, []⟩ opl).map fun r => showOut r.1 ++ "|" ++ showTm r.2)
  | _ => "bad-op"

partial def loop (h : IO.FS.Stream) (out : IO.FS.Stream) : IO Unit := do
  let line ← h.getLine
  if line.isEmpty then return ()
  let l := (line.dropEndWhile (· == '\n')).toString
  out.putStrLn (handle (l.splitOn " "))
  loop h out

def main : IO Unit := do
  let out ← IO.getStdout
  loop (← IO.getStdin) out
  out.flush
