-- This module serves as the root of the `Chartparse` library.
-- Import modules here that should be built as part of the library.
import Chartparse.Basic
