#!/bin/bash
# run every quick check under several seeds on the clean tree; print only non-zero exits
for seed in "$@"; do
  for i in $(seq -w 1 20); do
    out=$(VERIF_SEED=$seed ./check C$i --tier quick 2>&1); rc=$?
    [ $rc -ne 0 ] && echo "seed=$seed C$i rc=$rc $(echo "$out" | grep -m2 'VIOLATION\|infrastructure\|C..:' | cut -c1-300)"
  done
  echo "seed $seed done"
done
